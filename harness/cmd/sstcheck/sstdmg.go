package main

import (
	"bytes"
	"fmt"
	"os"
	"path/filepath"
	"strings"

	"github.com/thomasjungblut/go-sstables/skiplist"
	"github.com/thomasjungblut/go-sstables/sstables"
)

// ---------------------------------------------------------------------------------------------
// stream "sstdmg": damaged data files of small tables (C09).  Every byte offset x replacement values,
// every truncation length, swapped records; read back with verify-on-load (default options) and with
// verify-on-read.  Oracle: never a DIFFERENT value without error for a key with a non-empty value.

// eight bytes whose CRC-64/ISO is 0 (SST.C09.zero_checksum_value)
var sstCrcZeroValue = []byte{0xf4, 0x42, 0x2f, 0xf4, 0x42, 0x2f, 0xf4, 0x12}

type sstDmgTable struct {
	dcomp, icomp int
	kvs          []sstKV
	data         []byte
	index        []byte
	meta         []byte
	recOffs      []int // start of every data record
	hdrLens      []int // header length of every data record
	desc         string
	optRng       *Rng // second generator state: the order in which the read options are passed to every reader
}

func sstDmgMake(r *Rng, dir string, tier string, idx int) (*sstDmgTable, error) {
	t := &sstDmgTable{dcomp: r.Intn(4), icomp: 0}
	if r.Chance(35) {
		t.dcomp = 0
	}
	if r.Chance(20) {
		t.icomp = r.Intn(4)
	}
	n := 1 + r.Intn(4)
	seen := map[string]bool{}
	// the empty key is legal, sorts first and comes back from protobuf as a nil key: the first four cases of
	// every run hold it (written as empty slice / as nil) next to other keys with non-empty values, one case
	// per data compression type; a quarter of the other cases hold it too
	if idx < 4 || r.Chance(25) {
		if idx < 4 {
			t.dcomp = idx
			if n < 2 {
				n = 2
			}
		}
		var k []byte
		if idx%2 == 0 {
			k = []byte{}
		}
		seen[""] = true
		t.kvs = append(t.kvs, sstKV{k, r.Bytes(2 + r.Intn(10))})
	}
	for len(t.kvs) < n {
		k := r.Bytes(1 + r.Intn(4))
		if seen[string(k)] {
			continue
		}
		seen[string(k)] = true
		var v []byte
		switch c := r.Intn(100); {
		case idx < 4:
			v = r.Bytes(3 + r.Intn(16))
		case c < 6:
			v = nil
		case c < 10:
			v = []byte{}
		case c < 22: // the value the checksum does not protect
			v = append([]byte{}, sstCrcZeroValue...)
		case c < 40: // equal lengths make swapped records land on record boundaries
			v = r.Bytes(6)
		case c < 55:
			v = append(r.Bytes(r.Intn(6)), magic...)
		default:
			v = r.Bytes(1 + r.Intn(24))
		}
		t.kvs = append(t.kvs, sstKV{k, v})
	}
	sortKVs(t.kvs)
	w, err := sstables.NewSSTableStreamWriter(sstables.WriteBasePath(dir), sstables.WithKeyComparator(skiplist.BytesComparator{}),
		sstables.DataCompressionType(t.dcomp), sstables.IndexCompressionType(t.icomp), sstables.WriteBufferSizeBytes(r.Pick(bufSizes)))
	if err != nil {
		return nil, err
	}
	if err := w.Open(); err != nil {
		return nil, err
	}
	for _, p := range t.kvs {
		if err := w.WriteNext(p.key, p.val); err != nil {
			return nil, err
		}
	}
	if err := w.Close(); err != nil {
		return nil, err
	}
	if t.data, err = os.ReadFile(filepath.Join(dir, sstables.DataFileName)); err != nil {
		return nil, err
	}
	if t.index, err = os.ReadFile(filepath.Join(dir, sstables.IndexFileName)); err != nil {
		return nil, err
	}
	if t.meta, err = os.ReadFile(filepath.Join(dir, sstables.MetaFileName)); err != nil {
		return nil, err
	}
	off := 8
	for _, p := range t.kvs {
		rec := sstRefRecord(t.dcomp, p.val, p.val == nil)
		stored := 0
		if p.val != nil {
			stored = len(p.val)
			if t.dcomp != 0 {
				st, _ := compressorFor(t.dcomp).Compress(p.val)
				stored = len(st)
			}
		}
		t.recOffs = append(t.recOffs, off)
		t.hdrLens = append(t.hdrLens, len(rec)-stored)
		off += len(rec)
	}
	if off != len(t.data) {
		return nil, fmt.Errorf("sstdmg: reference layout %d differs from the file %d", off, len(t.data))
	}
	parts := make([]string, len(t.kvs))
	for i, p := range t.kvs {
		parts[i] = gb(p.key) + ":" + gb(p.val)
	}
	t.desc = fmt.Sprintf("dcomp=%d icomp=%d kvs=%s", t.dcomp, t.icomp, strings.Join(parts, ","))
	return t, nil
}

func sortKVs(kvs []sstKV) {
	for i := 1; i < len(kvs); i++ {
		for j := i; j > 0 && bytes.Compare(kvs[j-1].key, kvs[j].key) > 0; j-- {
			kvs[j-1], kvs[j] = kvs[j], kvs[j-1]
		}
	}
}

// where a byte position lies: "fileheader", "header" (of a record) or "payload"
func (t *sstDmgTable) region(pos int) string {
	if pos < 8 {
		return "fileheader"
	}
	for i := len(t.recOffs) - 1; i >= 0; i-- {
		if pos >= t.recOffs[i] {
			if pos < t.recOffs[i]+t.hdrLens[i] {
				return "header"
			}
			return "payload"
		}
	}
	return "header"
}

// canonical error tokens: kinds are compared only where the model can know them
func sstDmgCanon(s string, kinds bool) string {
	toks := strings.Split(s, " ")
	for i, tk := range toks {
		if strings.HasPrefix(tk, "open-err:") {
			// why NewSSTableReader failed is not compared (file-header errors carry no comparable kind)
			toks[i] = "open-err"
		} else if kinds {
			continue
		} else if j := strings.Index(tk, "]err:"); j >= 0 {
			toks[i] = tk[:j] + "]err"
		} else if strings.HasPrefix(tk, "err:") && tk != "err:notfound" {
			toks[i] = "err"
		}
	}
	return strings.Join(toks, " ")
}

func runSstDmg(res *Result, drv *Driver, seed uint64, n int, tier string, only int) error {
	root, err := os.MkdirTemp("", "verif-sstdmg-")
	if err != nil {
		return err
	}
	defer os.RemoveAll(root)
	res.Rule = "small generated tables under each data compression type x {every byte offset of data.rio x (8 bit flips, 0x00, 0xff, marker bytes), every truncation length, swapped neighbouring records} " +
		"x {verify on load (default options), skip-on-load + verify on every read; the read options passed in a generated order: every permutation} x {slice always; skip-list, map4, map20 loaders in rotation}; one evaluation = one returned value checked or one model comparison; " +
		"non-trivial = damaged file differs from the original; distinct = distinct (table, damaged bytes)"
	for idx := 0; idx < n; idx++ {
		if only >= 0 && idx != only {
			continue
		}
		r := NewRng(seed, uint64(idx))
		dir := filepath.Join(root, fmt.Sprintf("t%d", idx))
		if err := os.Mkdir(dir, 0o755); err != nil {
			return err
		}
		t, err := sstDmgMake(r, dir, tier, idx)
		if err != nil {
			return err
		}
		t.optRng = NewRng(seed^0x0097045eed, uint64(idx))
		if err := sstDmgOne(res, drv, r, t, idx, dir, tier); err != nil {
			return err
		}
		_ = os.RemoveAll(dir)
	}
	return nil
}

func sstDmgOne(res *Result, drv *Driver, r *Rng, t *sstDmgTable, idx int, dir string, tier string) error {
	res.Cases++
	res.Stat(fmt.Sprintf("dcomp=%d", t.dcomp))
	res.Sample(t.desc)
	orig := map[string][]byte{}
	var vals, ipay [][]byte
	ref := &sstCase{dcomp: t.dcomp, icomp: t.icomp}
	for _, p := range t.kvs {
		orig[string(p.key)] = p.val
		vals = append(vals, p.val)
		ref.calls = append(ref.calls, sstCall{p.key, p.val, 'n'})
		switch {
		case p.val == nil:
			res.Stat("value:nil")
		case len(p.val) == 0:
			res.Stat("value:empty")
		case crc64Ref(p.val) == 0:
			res.Stat("value:crc64-zero")
		default:
			res.Stat("value:data")
		}
	}
	ipay = sstReference(ref).idxPayloads
	ior := oracleFor(t.icomp, ipay)
	probes := []sstProbe{{kind: "scan"}}
	for _, p := range t.kvs {
		probes = append(probes, sstProbe{kind: "get", a: p.key})
	}
	probes = append(probes, sstProbe{kind: "from", a: t.kvs[0].key}, sstProbe{kind: "range", a: t.kvs[0].key, b: t.kvs[len(t.kvs)-1].key})
	var probeStrs []string
	for _, p := range probes {
		probeStrs = append(probeStrs, p.String())
	}
	// every damaged file is read through the slice loader in both verification modes and, in rotation,
	// through the skip-list, Byte4-map and Byte20-map loaders in both modes (keys are at most 4 bytes)
	extraLoaders := []string{"skip", "map4", "map20"}
	dmgCount := 0
	dataPath := filepath.Join(dir, sstables.DataFileName)

	check := func(kind string, dmg []byte, detail string, kinds bool, askModel bool) error {
		if bytes.Equal(dmg, t.data) {
			return nil
		}
		extra := extraLoaders[dmgCount%len(extraLoaders)]
		dmgCount++
		cfgs := []sstReaderCfg{{"slice-default", true, false}, {"slice", false, true}, {extra, true, false}, {extra, false, true}}
		res.Stat("loader:" + extra)
		if err := os.WriteFile(dataPath, dmg, 0o644); err != nil {
			return err
		}
		res.NoteNontrivial(t.desc + "|" + string(dmg))
		res.Stat("damage:" + kind)
		var implOuts []string
		for _, cfg := range cfgs {
			// the read options are passed in a generated order (every permutation of the options the configuration uses);
			// the verification mode asked for, and told to the model, is the same in every order
			rd, order, err := sstOpenReaderOrdered(dir, cfg, 4096, "", t.optRng)
			if si, ci := strings.Index(order, "skip-check-on-load"), strings.Index(order, "check-on-reads"); si >= 0 && ci >= 0 {
				if ci < si {
					res.Stat("options-order:check-on-reads-before-skip-on-load")
				} else {
					res.Stat("options-order:skip-on-load-before-check-on-reads")
				}
			}
			if !strings.HasPrefix(order, "base-path>buffer-size") {
				res.Stat("options-order:not-the-fixed-order")
			}
			if err != nil {
				res.Stat("outcome:open-failed")
				implOuts = append(implOuts, "open-err:"+strings.TrimPrefix(sstErr(err), "err:"))
				continue
			}
			outs := []string{"meta=" + sstMetaString(rd.MetaData())}
			for _, p := range probes {
				got := sstRunProbe(rd, p, len(t.kvs)+2)
				outs = append(outs, got)
				// ---- C09 oracle: every value returned without error is the written one (non-empty values)
				var pairs [][2]string
				if p.kind == "get" {
					if strings.HasPrefix(got, "ok:") {
						pairs = append(pairs, [2]string{string(p.a), got[3:]})
					}
				} else if strings.HasPrefix(got, "[") {
					body := got[1:strings.LastIndex(got, "]")]
					if body != "" {
						for _, it := range strings.Split(body, ";") {
							kv := strings.SplitN(it, "=", 2)
							pairs = append(pairs, [2]string{string(unGb(kv[0])), kv[1]})
						}
					}
				}
				for _, pr := range pairs {
					ov, known := orig[pr[0]]
					if !known || len(ov) == 0 {
						res.Stat("oracle:skipped-empty-or-unknown-key")
						continue
					}
					res.Evaluations++
					if pr[1] != gb(ov) {
						sig := "different-value-served:" + kind
						if crc64Ref(ov) == 0 {
							sig = "value-crc64-zero:checksum-bypass"
						}
						res.Violate(idx, "C09", sig, fmt.Sprintf("%s options=%s %s %s: key %s written %s served %s", cfg.modelString(), order, p.String(), detail, gb([]byte(pr[0])), gb(ov), pr[1]), t.desc+" options="+order+" damaged="+hexs(dmg))
					} else {
						res.Stat("outcome:original-served")
					}
				}
				if strings.Contains(got, "err") {
					res.Stat("outcome:read-error")
				}
			}
			_ = rd.Close()
			implOuts = append(implOuts, strings.Join(outs, " "))
		}
		if !askModel {
			res.Stat("model:skipped-header-of-compressed-file")
			return nil
		}
		// decompressor oracle for the damaged payload slices the intact headers point at
		dvals := append([][]byte{}, vals...)
		dor := oracleFor(t.dcomp, dvals)
		if t.dcomp != 0 {
			c := compressorFor(t.dcomp)
			var extra []string
			for i, p := range t.kvs {
				if p.val == nil {
					continue
				}
				st, _ := c.Compress(p.val)
				lo := t.recOffs[i] + t.hdrLens[i]
				hi := lo + len(st)
				if hi > len(dmg) {
					continue
				}
				if raw, err := c.Decompress(append([]byte{}, dmg[lo:hi]...)); err == nil && !bytes.Equal(dmg[lo:hi], st) {
					extra = append(extra, gb(nonNil(raw))+":"+gb(nonNil(dmg[lo:hi])))
				}
			}
			if len(extra) > 0 {
				dor = dor + "," + strings.Join(extra, ",")
			}
		}
		var cfgStrs []string
		for _, c := range cfgs {
			cfgStrs = append(cfgStrs, c.modelString())
		}
		m, err := drv.Ask(fmt.Sprintf("sst.read dcomp=%d icomp=%d doracle=%s ioracle=%s index=%s data=%s metaf=%s cfgs=%s probes=%s",
			t.dcomp, t.icomp, dor, ior, gb(t.index), gb(nonNil(dmg)), gb(t.meta), strings.Join(cfgStrs, ","), strings.Join(probeStrs, ",")))
		if err != nil {
			return err
		}
		if m == "unsupported-version" {
			// the altered file header names recordio version 1-3; those legacy readers are not modelled
			// (the property oracle above has been evaluated on the real result all the same)
			res.Stat("model:skipped-legacy-version-in-header")
			return nil
		}
		mParts := strings.Split(m, " || ")
		if len(mParts) != len(implOuts) {
			res.Cmp(idx, "sst.read("+kind+")", m, strings.Join(implOuts, " || "), t.desc+" "+detail)
			return nil
		}
		for i := range mParts {
			res.Cmp(idx, "sst.read("+kind+","+cfgs[i].modelString()+")", sstDmgCanon(mParts[i], kinds), sstDmgCanon(implOuts[i], kinds), t.desc+" "+detail+" damaged="+hexs(dmg))
		}
		return nil
	}

	// ---- (a) every byte offset x replacement values
	var positions []int
	if len(t.data) <= 220 || tier == "thorough" && len(t.data) <= 600 {
		for p := 0; p < len(t.data); p++ {
			positions = append(positions, p)
		}
	} else {
		for k := 0; k < 160; k++ {
			positions = append(positions, r.Intn(len(t.data)))
		}
	}
	for _, pos := range positions {
		reps := []byte{0x00, 0xff, 0x91, 0x8d, 0x4c}
		if tier == "thorough" {
			for b := 0; b < 8; b++ {
				reps = append(reps, t.data[pos]^(1<<b))
			}
		} else { // five of the eight bit flips, rotating with the position
			for _, b := range []int{pos % 8, (pos + 1) % 8, (pos + 3) % 8, (pos + 5) % 8, (pos + 6) % 8} {
				reps = append(reps, t.data[pos]^(1<<b))
			}
		}
		if tier == "thorough" && len(t.data) <= 120 {
			reps = reps[:0]
			for v := 0; v < 256; v++ {
				reps = append(reps, byte(v))
			}
		}
		region := t.region(pos)
		for _, x := range reps {
			if x == t.data[pos] {
				continue
			}
			dmg := append([]byte{}, t.data...)
			dmg[pos] = x
			// error kinds are compared for uncompressed files outside the file header's compression code
			kinds := t.dcomp == 0 && !(pos >= 4 && pos < 8)
			ask := t.dcomp == 0 || region == "payload"
			if err := check("alter-"+region, dmg, fmt.Sprintf("byte %d %02x->%02x", pos, t.data[pos], x), kinds, ask); err != nil {
				return err
			}
		}
	}
	// ---- (b) every truncation length
	for cut := 0; cut < len(t.data); cut++ {
		if len(t.data) > 400 && tier != "thorough" && cut%3 != 0 {
			continue
		}
		if err := check("truncate", append([]byte{}, t.data[:cut]...), fmt.Sprintf("cut at %d", cut), t.dcomp == 0, true); err != nil {
			return err
		}
	}
	// ---- (c) swapped neighbouring records
	for i := 0; i+1 < len(t.recOffs); i++ {
		a, b := t.recOffs[i], t.recOffs[i+1]
		end := len(t.data)
		if i+2 < len(t.recOffs) {
			end = t.recOffs[i+2]
		}
		dmg := append([]byte{}, t.data[:a]...)
		dmg = append(dmg, t.data[b:end]...)
		dmg = append(dmg, t.data[a:b]...)
		dmg = append(dmg, t.data[end:]...)
		if err := check("swap", dmg, fmt.Sprintf("records %d and %d swapped", i, i+1), t.dcomp == 0, true); err != nil {
			return err
		}
	}
	return nil
}

// inverse of gb for keys of scan answers
func unGb(s string) []byte {
	if s == "-" || s == "." {
		return []byte{}
	}
	b := make([]byte, len(s)/2)
	for i := range b {
		fmt.Sscanf(s[2*i:2*i+2], "%02x", &b[i])
	}
	return b
}
