package main

import (
	"bytes"
	"encoding/binary"
	"errors"
	"fmt"
	"sort"
	"strconv"
	"strings"

	"github.com/thomasjungblut/go-sstables/pq"
	"github.com/thomasjungblut/go-sstables/skiplist"
)

// ---------------------------------------------------------------------------------------------
// stream "skip": skip-list map under int / string / byte comparators (C16)

// order preserving encoding of an int64 as 8 bytes
func intKey(v int64) []byte {
	var b [8]byte
	binary.BigEndian.PutUint64(b[:], uint64(v)^(1<<63))
	return b[:]
}

type skipOps interface {
	insert(k []byte, v string) (panicked bool)
	size() int
	get(k []byte) (string, bool)
	has(k []byte) bool
	iter(kind string, a, b []byte) (string, error)
}

type skipImpl[K any] struct {
	m    skiplist.MapI[K, string]
	conv func([]byte) K
	back func(K) []byte
}

func (s *skipImpl[K]) insert(k []byte, v string) (panicked bool) {
	defer func() {
		if r := recover(); r != nil {
			panicked = true
		}
	}()
	s.m.Insert(s.conv(k), v)
	return false
}
func (s *skipImpl[K]) size() int { return s.m.Size() }
func (s *skipImpl[K]) get(k []byte) (string, bool) {
	v, err := s.m.Get(s.conv(k))
	if err != nil {
		return "", false
	}
	return v, true
}
func (s *skipImpl[K]) has(k []byte) bool { return s.m.Contains(s.conv(k)) }
func (s *skipImpl[K]) iter(kind string, a, b []byte) (string, error) {
	var it skiplist.IteratorI[K, string]
	var err error
	switch kind {
	case "all":
		it, err = s.m.Iterator()
	case "from":
		it, err = s.m.IteratorStartingAt(s.conv(a))
	case "between":
		it, err = s.m.IteratorBetween(s.conv(a), s.conv(b))
	}
	if err != nil {
		return "rejected", nil
	}
	var parts []string
	for i := 0; i < 1000000; i++ {
		k, v, e := it.Next()
		if errors.Is(e, skiplist.Done) {
			break
		}
		if e != nil {
			return "", e
		}
		parts = append(parts, gb(nonNil(s.back(k)))+"="+v)
	}
	if len(parts) == 0 {
		return "[]", nil
	}
	return strings.Join(parts, ";"), nil
}

func decodeIntKey(b []byte) int64 { return int64(binary.BigEndian.Uint64(b) ^ (1 << 63)) }

func runSkip(res *Result, drv *Driver, seed uint64, n int, tier string, only int) error {
	res.Rule = "insertion sequences (all permutations of up to 6 keys first, then random; duplicates included) x {int,string,bytes} comparators x all probes/bounds; " +
		"non-trivial = at least 2 keys inserted; distinct = distinct (comparator, insertion sequence)"
	// case list: exhaustive permutations of small key sets come first
	type skCase struct {
		cmp  string
		keys [][]byte
	}
	var cases []skCase
	perms := func(k int) [][]int {
		var out [][]int
		var rec func(cur []int, used []bool)
		rec = func(cur []int, used []bool) {
			if len(cur) == k {
				out = append(out, append([]int{}, cur...))
				return
			}
			for i := 0; i < k; i++ {
				if !used[i] {
					used[i] = true
					rec(append(cur, i), used)
					used[i] = false
				}
			}
		}
		rec(nil, make([]bool, k))
		return out
	}
	maxPerm := 5
	if tier == "thorough" {
		maxPerm = 7
	}
	for k := 0; k <= maxPerm; k++ {
		for _, p := range perms(k) {
			keys := make([][]byte, k)
			for i, x := range p {
				keys[i] = intKey(int64(x*3 - 4)) // includes negatives
			}
			cases = append(cases, skCase{"int", keys})
		}
	}
	exhaustive := len(cases)
	res.StatN("exhaustive-permutation-cases", exhaustive)
	for i := 0; i < n; i++ {
		r := NewRng(seed, uint64(i))
		c := skCase{cmp: []string{"int", "string", "bytes"}[r.Intn(3)]}
		cnt := r.Intn(40)
		universe := 1 + r.Intn(60)
		for j := 0; j < cnt; j++ {
			switch c.cmp {
			case "int":
				c.keys = append(c.keys, intKey(int64(r.Intn(universe))-int64(universe/2)))
			default:
				kl := r.Intn(4)
				k := make([]byte, kl)
				for x := range k {
					k[x] = []byte{0, 1, 'a', 'b', 0xff}[r.Intn(5)]
				}
				c.keys = append(c.keys, k)
			}
		}
		cases = append(cases, c)
	}
	for idx, c := range cases {
		if only >= 0 && idx != only {
			continue
		}
		r := NewRng(seed^0xabcdef, uint64(idx))
		res.Cases++
		res.Stat("cmp:" + c.cmp)
		var impl skipOps
		switch c.cmp {
		case "int":
			impl = &skipImpl[int64]{m: skiplist.NewSkipListMap[int64, string](skiplist.OrderedComparator[int64]{}), conv: decodeIntKey, back: intKey}
		case "string":
			impl = &skipImpl[string]{m: skiplist.NewSkipListMap[string, string](skiplist.OrderedComparator[string]{}),
				conv: func(b []byte) string { return string(b) }, back: func(s string) []byte { return []byte(s) }}
		default:
			var bc skiplist.Comparator[[]byte] = skiplist.BytesComparator{}
			if sc := []int{1, 3, 1000}[r.Intn(3)]; sc != 1 {
				bc = scaledBytesCmp{sc}
				res.Stat("cmp:magnitudes-other-than-1")
			}
			impl = &skipImpl[[]byte]{m: skiplist.NewSkipListMap[[]byte, string](bc),
				conv: func(b []byte) []byte { return b }, back: func(b []byte) []byte { return b }}
		}
		// reference map
		ref := map[string]string{}
		var insTok, insOut []string
		for j, k := range c.keys {
			v := "v" + strconv.Itoa(j)
			h := 1 + r.Intn(12)
			if r.Chance(20) {
				h = []int{1, 12}[r.Intn(2)]
			}
			insTok = append(insTok, fmt.Sprintf("%s:%s:%d", gb(nonNil(k)), v, h))
			p := impl.insert(k, v)
			_, dup := ref[string(k)]
			if p {
				insOut = append(insOut, "panic")
				res.Stat("dup-insert")
			} else {
				insOut = append(insOut, "ok")
				if !dup {
					ref[string(k)] = v
				}
			}
			res.Evaluations++
			if p != dup {
				res.Violate(idx, "C16", "skip:dup-handling", fmt.Sprintf("insert #%d of key %x: panicked=%v but duplicate=%v", j, k, p, dup), strings.Join(insTok, ","))
			}
		}
		cs := c.cmp + " ins=" + strings.Join(insTok, ",")
		if len(ref) >= 2 {
			res.NoteNontrivial(cs)
		}
		res.Sample(cs)
		// sorted reference
		var sk [][]byte
		for k := range ref {
			sk = append(sk, []byte(k))
		}
		sort.Slice(sk, func(a, b int) bool { return bytes.Compare(sk[a], sk[b]) < 0 })
		refList := func(pred func(k []byte) bool) string {
			var parts []string
			for _, k := range sk {
				if pred(k) {
					parts = append(parts, gb(nonNil(k))+"="+ref[string(k)])
				}
			}
			if len(parts) == 0 {
				return "[]"
			}
			return strings.Join(parts, ";")
		}
		// probes: every present key, neighbours, and random ones; all bounds pairs for small sets
		var probeKeys [][]byte
		probeKeys = append(probeKeys, sk...)
		for i := 0; i < 4; i++ {
			if c.cmp == "int" {
				probeKeys = append(probeKeys, intKey(int64(r.Intn(80))-40))
			} else {
				probeKeys = append(probeKeys, r.Bytes(r.Intn(3)))
			}
		}
		if c.cmp != "int" {
			probeKeys = append(probeKeys, []byte{})
		}
		if len(probeKeys) > 14 {
			probeKeys = probeKeys[:14]
		}
		var probes, implOut []string
		add := func(p, got, want string) {
			probes = append(probes, p)
			implOut = append(implOut, got)
			res.Evaluations++
			if got != want {
				res.Violate(idx, "C16", "skip:"+strings.SplitN(p, ":", 2)[0], fmt.Sprintf("%s: want %s got %s", p, want, got), cs)
			}
		}
		add("size", strconv.Itoa(impl.size()), strconv.Itoa(len(ref)))
		all, err := impl.iter("all", nil, nil)
		if err != nil {
			return err
		}
		add("all", all, refList(func([]byte) bool { return true }))
		for _, k := range probeKeys {
			ks := gb(nonNil(k))
			v, ok := impl.get(k)
			got, want := "notfound", "notfound"
			if ok {
				got = "ok:" + v
			}
			if rv, ok := ref[string(k)]; ok {
				want = "ok:" + rv
			}
			add("get:"+ks, got, want)
			_, present := ref[string(k)]
			add("has:"+ks, strconv.FormatBool(impl.has(k)), strconv.FormatBool(present))
			fr, err := impl.iter("from", k, nil)
			if err != nil {
				return err
			}
			kk := k
			add("from:"+ks, fr, refList(func(x []byte) bool { return bytes.Compare(x, kk) >= 0 }))
		}
		for _, lo := range probeKeys {
			for _, hi := range probeKeys {
				if len(probeKeys) > 8 && !r.Chance(25) {
					continue
				}
				bt, err := impl.iter("between", lo, hi)
				if err != nil {
					return err
				}
				want := "rejected"
				if bytes.Compare(lo, hi) <= 0 {
					l, h := lo, hi
					want = refList(func(x []byte) bool { return bytes.Compare(x, l) >= 0 && bytes.Compare(x, h) <= 0 })
				} else {
					res.Stat("between:lower>upper")
				}
				add("between:"+gb(nonNil(lo))+":"+gb(nonNil(hi)), bt, want)
			}
		}
		m, err := drv.Ask(fmt.Sprintf("skip.run ins=%s probes=%s", strings.Join(insTok, ","), strings.Join(probes, ",")))
		if err != nil {
			return err
		}
		res.Cmp(idx, "skip.run", m, "ins="+strings.Join(insOut, ",")+" "+strings.Join(implOut, " "), cs)
	}
	return nil
}

// a consistent comparator that does not restrict itself to -1/0/+1 (the documented contract is <0, 0, >0)
type scaledBytesCmp struct{ k int }

func (c scaledBytesCmp) Compare(a, b []byte) int { return c.k * bytes.Compare(a, b) }

// ---------------------------------------------------------------------------------------------
// stream "pq": k-way merge heap (C16)

// how an input signals exhaustion: the bare sentinel, or an error that wraps it (errors.Is is the documented test)
const (
	pqDoneBare = iota
	pqDoneWrapped
	pqDoneWrappedTwice
)

var pqDoneNames = []string{"bare", "wrapped", "wrapped-twice"}

var errPqRead = errors.New("injected read fault")

type sliceIter struct {
	items  [][2][]byte
	pos    int
	ctx    int
	done   int // pqDone*
	failAt int // -1: never; otherwise the call (0-based) that returns a real error instead of its element / of Done
	calls  int
	hit    bool
}

func (s *sliceIter) Next() ([]byte, []byte, error) {
	n := s.calls
	s.calls++
	if s.failAt >= 0 && n >= s.failAt {
		s.hit = true
		return nil, nil, fmt.Errorf("input %d: reading element %d: %w", s.ctx, n, errPqRead)
	}
	if s.pos >= len(s.items) {
		switch s.done {
		case pqDoneWrapped:
			return nil, nil, fmt.Errorf("input %d exhausted: %w", s.ctx, pq.Done)
		case pqDoneWrappedTwice:
			return nil, nil, fmt.Errorf("merge source: %w", fmt.Errorf("input %d exhausted: %w", s.ctx, pq.Done))
		}
		return nil, nil, pq.Done
	}
	it := s.items[s.pos]
	s.pos++
	return it[0], it[1], nil
}
func (s *sliceIter) Context() int { return s.ctx }

func runPq(res *Result, drv *Driver, seed uint64, n int, tier string, only int) error {
	res.Rule = "0..8 ascending inputs of differing lengths over a small key alphabet (duplicates across inputs, empty inputs, empty key); " +
		"each input signals exhaustion with the bare pq.Done or with an error wrapping it (inputs empty from the start and inputs that run dry later); " +
		"15% of the cases have one input whose k-th call returns a real error (wrapping another sentinel) instead of its element or of Done; " +
		"non-trivial = at least 2 non-empty inputs; distinct = distinct input lists"
	for idx := 0; idx < n; idx++ {
		if only >= 0 && idx != only {
			continue
		}
		r := NewRng(seed, uint64(idx))
		res.Cases++
		k := r.Intn(9)
		universe := 1 + r.Intn(12)
		var inputs [][][2][]byte
		nonEmpty := 0
		for i := 0; i < k; i++ {
			ln := r.Intn(8)
			if r.Chance(15) {
				ln = 0
			}
			if tier == "thorough" && r.Chance(5) {
				ln = 50 + r.Intn(200)
			}
			set := map[int]bool{}
			for j := 0; j < ln; j++ {
				set[r.Intn(universe+ln)] = true
			}
			var ks []int
			for x := range set {
				ks = append(ks, x)
			}
			sort.Ints(ks)
			var in [][2][]byte
			for _, x := range ks {
				key := []byte{byte(x)}
				if x > 255 {
					// long inputs (thorough tier) exceed one byte: continue above ff so that the input stays ascending
					key = []byte{0xff, byte(x - 255)}
				}
				if x == 0 && r.Chance(50) {
					key = []byte{} // the empty key sorts first
				}
				in = append(in, [2][]byte{key, []byte(fmt.Sprintf("v%d.%d", i, x))})
			}
			if len(in) > 0 {
				nonEmpty++
			}
			inputs = append(inputs, in)
		}
		res.Stat(fmt.Sprintf("inputs=%d", k))
		// exhaustion style per input and an optional failing input: drawn from a second generator state so that the
		// generated element lists are those of the plain cases
		r2 := NewRng(seed^0x5eed0d09e, uint64(idx))
		styles := make([]int, k)
		anyWrapped := false
		wrapAll := r2.Chance(15)
		for i := range styles {
			if wrapAll || r2.Chance(35) {
				styles[i] = pqDoneWrapped + r2.Intn(2)
				anyWrapped = true
				if len(inputs[i]) == 0 {
					res.Stat("input:wrapped-done:empty-from-start")
				} else {
					res.Stat("input:wrapped-done:runs-dry-later")
				}
			} else {
				res.Stat("input:bare-done")
			}
		}
		failIn, failAt := -1, -1
		if k > 0 && r2.Chance(15) {
			failIn = r2.Intn(k)
			failAt = r2.Intn(len(inputs[failIn]) + 1)
			switch {
			case failAt == 0:
				res.Stat("input:read-error:first-call")
			case failAt == len(inputs[failIn]):
				res.Stat("input:read-error:instead-of-done")
			default:
				res.Stat("input:read-error:mid-input")
			}
		}
		var its []pq.IteratorWithContext[[]byte, []byte, int]
		var sis []*sliceIter
		var tok, tokCut, styleTok []string
		total := 0
		for i, in := range inputs {
			si := &sliceIter{items: in, ctx: i, done: styles[i], failAt: -1}
			if i == failIn {
				si.failAt = failAt
			}
			sis = append(sis, si)
			its = append(its, si)
			var parts []string
			for _, it := range in {
				parts = append(parts, gb(it[0])+":"+string(it[1]))
			}
			total += len(in)
			tok = append(tok, strings.Join(parts, ";"))
			if i == failIn {
				parts = parts[:failAt]
			}
			tokCut = append(tokCut, strings.Join(parts, ";"))
			styleTok = append(styleTok, pqDoneNames[styles[i]])
		}
		cs := "inputs=" + strings.Join(tok, "|")
		if nonEmpty >= 2 {
			res.NoteNontrivial(cs)
		}
		res.Sample(cs)
		// what distinguishes the case beyond its element lists (part of the reported case, not of the distinctness key)
		csFull := cs + " done=" + strings.Join(styleTok, "|")
		if failIn >= 0 {
			csFull += fmt.Sprintf(" read-error=input %d call %d", failIn, failAt)
		}
		sigSuffix := ""
		if anyWrapped {
			sigSuffix = ":wrapped-done"
		}
		var cmp skiplist.Comparator[[]byte] = skiplist.BytesComparator{}
		if sc := []int{1, 1, 2, 7, 1000}[r.Intn(5)]; sc != 1 {
			cmp = scaledBytesCmp{sc}
			res.Stat("cmp:magnitudes-other-than-1")
		}
		type trip struct {
			k, v string
			c    int
		}
		var out []trip
		var outParts []string
		var runErr error // the non-Done error the queue reported (constructor or Next)
		terminated := false
		q, err := pq.NewPriorityQueue[[]byte, []byte, int](cmp, its)
		if err != nil {
			runErr = err
		} else {
			// a correct queue needs total+1 calls; a few more are granted before the run is declared non-terminating
			for j := 0; j < total+8; j++ {
				kk, v, c, err := q.Next()
				if errors.Is(err, pq.Done) {
					terminated = true
					break
				}
				if err != nil {
					runErr = err
					break
				}
				out = append(out, trip{string(kk), string(v), c})
				outParts = append(outParts, gb(nonNil(kk))+":"+string(v)+":"+strconv.Itoa(c))
			}
		}
		impl := "[]"
		if len(outParts) > 0 {
			impl = strings.Join(outParts, ";")
		}
		res.Evaluations++
		okSorted := true
		for j := 1; j < len(out); j++ {
			if out[j-1].k > out[j].k {
				okSorted = false
			}
		}
		perInput := make([][]trip, len(inputs))
		for _, t := range out {
			if t.c < 0 || t.c >= len(inputs) {
				okSorted = false
				continue
			}
			perInput[t.c] = append(perInput[t.c], t)
		}
		if failIn >= 0 {
			// oracle for a failing input: the error must be reported (never Done, never an endless stream), it must be the
			// input's error and not pq.Done; what was emitted before is sorted and a prefix of every input
			switch {
			case runErr == nil && terminated:
				res.Violate(idx, "C16", "pq:read-error-absorbed"+sigSuffix, "an input returned a real error, the queue reported Done after: "+impl, csFull)
			case runErr == nil:
				res.Violate(idx, "C16", "pq:read-error-absorbed"+sigSuffix, "an input returned a real error, the queue keeps emitting elements: "+impl, csFull)
			case !errors.Is(runErr, errPqRead) || errors.Is(runErr, pq.Done):
				res.Violate(idx, "C16", "pq:read-error-replaced"+sigSuffix, "the queue reported "+runErr.Error()+" which is not the input's error", csFull)
			}
			if !sis[failIn].hit {
				res.Violate(idx, "C16", "pq:read-error-not-reached"+sigSuffix, "the queue finished without calling the failing input's Next often enough: "+impl, csFull)
			}
			okPrefix := true
			for i, in := range inputs {
				lim := len(in)
				if i == failIn {
					lim = failAt
				}
				if len(perInput[i]) > lim {
					okPrefix = false
					continue
				}
				for j := range perInput[i] {
					if string(in[j][0]) != perInput[i][j].k || string(in[j][1]) != perInput[i][j].v {
						okPrefix = false
					}
				}
			}
			if !okSorted {
				res.Violate(idx, "C16", "pq:order:before-read-error"+sigSuffix, "output not in non-descending key order: "+impl, csFull)
			}
			if !okPrefix {
				res.Violate(idx, "C16", "pq:elements:before-read-error"+sigSuffix, "output is not made of prefixes of the inputs: "+impl, csFull)
			}
			// model: the run is the run over the inputs with the failing one cut at the failing call, up to (excluding) the
			// element whose removal asks the failing input for its next element, i.e. its last element before the error
			line := "pq.run inputs=" + strings.Join(tokCut, "|")
			m, err := drv.Ask(line)
			if err != nil {
				return err
			}
			want := m
			if !strings.Contains(m, "bad-op") {
				var mt []string
				if m != "[]" {
					mt = strings.Split(m, ";")
				}
				seen := 0
				cut := len(mt)
				if failAt == 0 {
					cut = 0 // the constructor fails
				}
				for j, t := range mt {
					if failAt > 0 && strings.HasSuffix(t, ":"+strconv.Itoa(failIn)) {
						seen++
						if seen == failAt {
							cut = j
							break
						}
					}
				}
				want = "[]"
				if cut > 0 {
					want = strings.Join(mt[:cut], ";")
				}
			}
			res.Cmp(idx, "pq.run (elements emitted before the read error)", want, impl, csFull)
			continue
		}
		if runErr != nil {
			res.Violate(idx, "C16", "pq:error-without-fault"+sigSuffix, "the queue reported "+runErr.Error()+" although no input failed", csFull)
		}
		// oracle: non-descending, every element exactly once with its input's identity, per-input order kept
		okPerm := terminated
		for i, in := range inputs {
			if len(in) != len(perInput[i]) {
				okPerm = false
				continue
			}
			for j := range in {
				if string(in[j][0]) != perInput[i][j].k || string(in[j][1]) != perInput[i][j].v {
					okPerm = false
				}
			}
		}
		if !okSorted {
			res.Violate(idx, "C16", "pq:order"+sigSuffix, "output not in non-descending key order: "+impl, csFull)
		}
		if !okPerm {
			d := "output is not every element of every input exactly once: " + impl
			if !terminated && runErr == nil {
				d = fmt.Sprintf("no Done after %d calls for %d elements; ", total+8, total) + d
			}
			res.Violate(idx, "C16", "pq:elements"+sigSuffix, d, csFull)
		}
		line := "pq.run inputs=" + strings.Join(tok, "|")
		if k == 0 {
			line = "pq.run k=0 inputs="
		}
		m, err := drv.Ask(line)
		if err != nil {
			return err
		}
		res.Cmp(idx, "pq.run", m, impl, csFull)
	}
	return nil
}
