package main

import (
	"bytes"
	"encoding/binary"
	"errors"
	"fmt"
	"sort"
	"strconv"
	"strings"

	"github.com/thomasjungblut/go-sstables/pq"
	"github.com/thomasjungblut/go-sstables/skiplist"
)

// ---------------------------------------------------------------------------------------------
// stream "skip": skip-list map under int / string / byte comparators (C16)

// order preserving encoding of an int64 as 8 bytes
func intKey(v int64) []byte {
	var b [8]byte
	binary.BigEndian.PutUint64(b[:], uint64(v)^(1<<63))
	return b[:]
}

type skipOps interface {
	insert(k []byte, v string) (panicked bool)
	size() int
	get(k []byte) (string, bool)
	has(k []byte) bool
	iter(kind string, a, b []byte) (string, error)
}

type skipImpl[K any] struct {
	m    skiplist.MapI[K, string]
	conv func([]byte) K
	back func(K) []byte
}

func (s *skipImpl[K]) insert(k []byte, v string) (panicked bool) {
	defer func() {
		if r := recover(); r != nil {
			panicked = true
		}
	}()
	s.m.Insert(s.conv(k), v)
	return false
}
func (s *skipImpl[K]) size() int { return s.m.Size() }
func (s *skipImpl[K]) get(k []byte) (string, bool) {
	v, err := s.m.Get(s.conv(k))
	if err != nil {
		return "", false
	}
	return v, true
}
func (s *skipImpl[K]) has(k []byte) bool { return s.m.Contains(s.conv(k)) }
func (s *skipImpl[K]) iter(kind string, a, b []byte) (string, error) {
	var it skiplist.IteratorI[K, string]
	var err error
	switch kind {
	case "all":
		it, err = s.m.Iterator()
	case "from":
		it, err = s.m.IteratorStartingAt(s.conv(a))
	case "between":
		it, err = s.m.IteratorBetween(s.conv(a), s.conv(b))
	}
	if err != nil {
		return "rejected", nil
	}
	var parts []string
	for i := 0; i < 1000000; i++ {
		k, v, e := it.Next()
		if errors.Is(e, skiplist.Done) {
			break
		}
		if e != nil {
			return "", e
		}
		parts = append(parts, gb(nonNil(s.back(k)))+"="+v)
	}
	if len(parts) == 0 {
		return "[]", nil
	}
	return strings.Join(parts, ";"), nil
}

func decodeIntKey(b []byte) int64 { return int64(binary.BigEndian.Uint64(b) ^ (1 << 63)) }

func runSkip(res *Result, drv *Driver, seed uint64, n int, tier string, only int) error {
	res.Rule = "insertion sequences (all permutations of up to 6 keys first, then random; duplicates included) x {int,string,bytes} comparators x all probes/bounds; " +
		"non-trivial = at least 2 keys inserted; distinct = distinct (comparator, insertion sequence)"
	// case list: exhaustive permutations of small key sets come first
	type skCase struct {
		cmp  string
		keys [][]byte
	}
	var cases []skCase
	perms := func(k int) [][]int {
		var out [][]int
		var rec func(cur []int, used []bool)
		rec = func(cur []int, used []bool) {
			if len(cur) == k {
				out = append(out, append([]int{}, cur...))
				return
			}
			for i := 0; i < k; i++ {
				if !used[i] {
					used[i] = true
					rec(append(cur, i), used)
					used[i] = false
				}
			}
		}
		rec(nil, make([]bool, k))
		return out
	}
	maxPerm := 5
	if tier == "thorough" {
		maxPerm = 7
	}
	for k := 0; k <= maxPerm; k++ {
		for _, p := range perms(k) {
			keys := make([][]byte, k)
			for i, x := range p {
				keys[i] = intKey(int64(x*3 - 4)) // includes negatives
			}
			cases = append(cases, skCase{"int", keys})
		}
	}
	exhaustive := len(cases)
	res.StatN("exhaustive-permutation-cases", exhaustive)
	for i := 0; i < n; i++ {
		r := NewRng(seed, uint64(i))
		c := skCase{cmp: []string{"int", "string", "bytes"}[r.Intn(3)]}
		cnt := r.Intn(40)
		universe := 1 + r.Intn(60)
		for j := 0; j < cnt; j++ {
			switch c.cmp {
			case "int":
				c.keys = append(c.keys, intKey(int64(r.Intn(universe))-int64(universe/2)))
			default:
				kl := r.Intn(4)
				k := make([]byte, kl)
				for x := range k {
					k[x] = []byte{0, 1, 'a', 'b', 0xff}[r.Intn(5)]
				}
				c.keys = append(c.keys, k)
			}
		}
		cases = append(cases, c)
	}
	for idx, c := range cases {
		if only >= 0 && idx != only {
			continue
		}
		r := NewRng(seed^0xabcdef, uint64(idx))
		res.Cases++
		res.Stat("cmp:" + c.cmp)
		var impl skipOps
		switch c.cmp {
		case "int":
			impl = &skipImpl[int64]{m: skiplist.NewSkipListMap[int64, string](skiplist.OrderedComparator[int64]{}), conv: decodeIntKey, back: intKey}
		case "string":
			impl = &skipImpl[string]{m: skiplist.NewSkipListMap[string, string](skiplist.OrderedComparator[string]{}),
				conv: func(b []byte) string { return string(b) }, back: func(s string) []byte { return []byte(s) }}
		default:
			var bc skiplist.Comparator[[]byte] = skiplist.BytesComparator{}
			if sc := []int{1, 3, 1000}[r.Intn(3)]; sc != 1 {
				bc = scaledBytesCmp{sc}
				res.Stat("cmp:magnitudes-other-than-1")
			}
			impl = &skipImpl[[]byte]{m: skiplist.NewSkipListMap[[]byte, string](bc),
				conv: func(b []byte) []byte { return b }, back: func(b []byte) []byte { return b }}
		}
		// reference map
		ref := map[string]string{}
		var insTok, insOut []string
		for j, k := range c.keys {
			v := "v" + strconv.Itoa(j)
			h := 1 + r.Intn(12)
			if r.Chance(20) {
				h = []int{1, 12}[r.Intn(2)]
			}
			insTok = append(insTok, fmt.Sprintf("%s:%s:%d", gb(nonNil(k)), v, h))
			p := impl.insert(k, v)
			_, dup := ref[string(k)]
			if p {
				insOut = append(insOut, "panic")
				res.Stat("dup-insert")
			} else {
				insOut = append(insOut, "ok")
				if !dup {
					ref[string(k)] = v
				}
			}
			res.Evaluations++
			if p != dup {
				res.Violate(idx, "C16", "skip:dup-handling", fmt.Sprintf("insert #%d of key %x: panicked=%v but duplicate=%v", j, k, p, dup), strings.Join(insTok, ","))
			}
		}
		cs := c.cmp + " ins=" + strings.Join(insTok, ",")
		if len(ref) >= 2 {
			res.NoteNontrivial(cs)
		}
		res.Sample(cs)
		// sorted reference
		var sk [][]byte
		for k := range ref {
			sk = append(sk, []byte(k))
		}
		sort.Slice(sk, func(a, b int) bool { return bytes.Compare(sk[a], sk[b]) < 0 })
		refList := func(pred func(k []byte) bool) string {
			var parts []string
			for _, k := range sk {
				if pred(k) {
					parts = append(parts, gb(nonNil(k))+"="+ref[string(k)])
				}
			}
			if len(parts) == 0 {
				return "[]"
			}
			return strings.Join(parts, ";")
		}
		// probes: every present key, neighbours, and random ones; all bounds pairs for small sets
		var probeKeys [][]byte
		probeKeys = append(probeKeys, sk...)
		for i := 0; i < 4; i++ {
			if c.cmp == "int" {
				probeKeys = append(probeKeys, intKey(int64(r.Intn(80))-40))
			} else {
				probeKeys = append(probeKeys, r.Bytes(r.Intn(3)))
			}
		}
		if c.cmp != "int" {
			probeKeys = append(probeKeys, []byte{})
		}
		if len(probeKeys) > 14 {
			probeKeys = probeKeys[:14]
		}
		var probes, implOut []string
		add := func(p, got, want string) {
			probes = append(probes, p)
			implOut = append(implOut, got)
			res.Evaluations++
			if got != want {
				res.Violate(idx, "C16", "skip:"+strings.SplitN(p, ":", 2)[0], fmt.Sprintf("%s: want %s got %s", p, want, got), cs)
			}
		}
		add("size", strconv.Itoa(impl.size()), strconv.Itoa(len(ref)))
		all, err := impl.iter("all", nil, nil)
		if err != nil {
			return err
		}
		add("all", all, refList(func([]byte) bool { return true }))
		for _, k := range probeKeys {
			ks := gb(nonNil(k))
			v, ok := impl.get(k)
			got, want := "notfound", "notfound"
			if ok {
				got = "ok:" + v
			}
			if rv, ok := ref[string(k)]; ok {
				want = "ok:" + rv
			}
			add("get:"+ks, got, want)
			_, present := ref[string(k)]
			add("has:"+ks, strconv.FormatBool(impl.has(k)), strconv.FormatBool(present))
			fr, err := impl.iter("from", k, nil)
			if err != nil {
				return err
			}
			kk := k
			add("from:"+ks, fr, refList(func(x []byte) bool { return bytes.Compare(x, kk) >= 0 }))
		}
		for _, lo := range probeKeys {
			for _, hi := range probeKeys {
				if len(probeKeys) > 8 && !r.Chance(25) {
					continue
				}
				bt, err := impl.iter("between", lo, hi)
				if err != nil {
					return err
				}
				want := "rejected"
				if bytes.Compare(lo, hi) <= 0 {
					l, h := lo, hi
					want = refList(func(x []byte) bool { return bytes.Compare(x, l) >= 0 && bytes.Compare(x, h) <= 0 })
				} else {
					res.Stat("between:lower>upper")
				}
				add("between:"+gb(nonNil(lo))+":"+gb(nonNil(hi)), bt, want)
			}
		}
		m, err := drv.Ask(fmt.Sprintf("skip.run ins=%s probes=%s", strings.Join(insTok, ","), strings.Join(probes, ",")))
		if err != nil {
			return err
		}
		res.Cmp(idx, "skip.run", m, "ins="+strings.Join(insOut, ",")+" "+strings.Join(implOut, " "), cs)
	}
	return nil
}

// a consistent comparator that does not restrict itself to -1/0/+1 (the documented contract is <0, 0, >0)
type scaledBytesCmp struct{ k int }

func (c scaledBytesCmp) Compare(a, b []byte) int { return c.k * bytes.Compare(a, b) }

// ---------------------------------------------------------------------------------------------
// stream "pq": k-way merge heap (C16)

type sliceIter struct {
	items [][2][]byte
	pos   int
	ctx   int
}

func (s *sliceIter) Next() ([]byte, []byte, error) {
	if s.pos >= len(s.items) {
		return nil, nil, pq.Done
	}
	it := s.items[s.pos]
	s.pos++
	return it[0], it[1], nil
}
func (s *sliceIter) Context() int { return s.ctx }

func runPq(res *Result, drv *Driver, seed uint64, n int, tier string, only int) error {
	res.Rule = "0..8 ascending inputs of differing lengths over a small key alphabet (duplicates across inputs, empty inputs, empty key); " +
		"non-trivial = at least 2 non-empty inputs; distinct = distinct input lists"
	for idx := 0; idx < n; idx++ {
		if only >= 0 && idx != only {
			continue
		}
		r := NewRng(seed, uint64(idx))
		res.Cases++
		k := r.Intn(9)
		universe := 1 + r.Intn(12)
		var inputs [][][2][]byte
		nonEmpty := 0
		for i := 0; i < k; i++ {
			ln := r.Intn(8)
			if r.Chance(15) {
				ln = 0
			}
			if tier == "thorough" && r.Chance(5) {
				ln = 50 + r.Intn(200)
			}
			set := map[int]bool{}
			for j := 0; j < ln; j++ {
				set[r.Intn(universe+ln)] = true
			}
			var ks []int
			for x := range set {
				ks = append(ks, x)
			}
			sort.Ints(ks)
			var in [][2][]byte
			for _, x := range ks {
				key := []byte{byte(x)}
				if x == 0 && r.Chance(50) {
					key = []byte{} // the empty key sorts first
				}
				in = append(in, [2][]byte{key, []byte(fmt.Sprintf("v%d.%d", i, x))})
			}
			if len(in) > 0 {
				nonEmpty++
			}
			inputs = append(inputs, in)
		}
		res.Stat(fmt.Sprintf("inputs=%d", k))
		var its []pq.IteratorWithContext[[]byte, []byte, int]
		var tok []string
		for i, in := range inputs {
			its = append(its, &sliceIter{items: in, ctx: i})
			var parts []string
			for _, it := range in {
				parts = append(parts, gb(it[0])+":"+string(it[1]))
			}
			tok = append(tok, strings.Join(parts, ";"))
		}
		cs := "inputs=" + strings.Join(tok, "|")
		if nonEmpty >= 2 {
			res.NoteNontrivial(cs)
		}
		res.Sample(cs)
		var cmp skiplist.Comparator[[]byte] = skiplist.BytesComparator{}
		if sc := []int{1, 1, 2, 7, 1000}[r.Intn(5)]; sc != 1 {
			cmp = scaledBytesCmp{sc}
			res.Stat("cmp:magnitudes-other-than-1")
		}
		q, err := pq.NewPriorityQueue[[]byte, []byte, int](cmp, its)
		if err != nil {
			return err
		}
		var outParts []string
		type trip struct {
			k, v string
			c    int
		}
		var out []trip
		for j := 0; j < 1000000; j++ {
			kk, v, c, err := q.Next()
			if errors.Is(err, pq.Done) {
				break
			}
			if err != nil {
				return err
			}
			out = append(out, trip{string(kk), string(v), c})
			outParts = append(outParts, gb(nonNil(kk))+":"+string(v)+":"+strconv.Itoa(c))
		}
		impl := "[]"
		if len(outParts) > 0 {
			impl = strings.Join(outParts, ";")
		}
		// oracle: non-descending, every element exactly once with its input's identity, per-input order kept
		res.Evaluations++
		okSorted := true
		for j := 1; j < len(out); j++ {
			if out[j-1].k > out[j].k {
				okSorted = false
			}
		}
		perInput := make([][]trip, len(inputs))
		for _, t := range out {
			if t.c < 0 || t.c >= len(inputs) {
				okSorted = false
				continue
			}
			perInput[t.c] = append(perInput[t.c], t)
		}
		okPerm := true
		for i, in := range inputs {
			if len(in) != len(perInput[i]) {
				okPerm = false
				continue
			}
			for j := range in {
				if string(in[j][0]) != perInput[i][j].k || string(in[j][1]) != perInput[i][j].v {
					okPerm = false
				}
			}
		}
		if !okSorted {
			res.Violate(idx, "C16", "pq:order", "output not in non-descending key order: "+impl, cs)
		}
		if !okPerm {
			res.Violate(idx, "C16", "pq:elements", "output is not every element of every input exactly once: "+impl, cs)
		}
		line := "pq.run inputs=" + strings.Join(tok, "|")
		if k == 0 {
			line = "pq.run k=0 inputs="
		}
		m, err := drv.Ask(line)
		if err != nil {
			return err
		}
		res.Cmp(idx, "pq.run", m, impl, cs)
	}
	return nil
}
