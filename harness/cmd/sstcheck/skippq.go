package main

import (
	"bytes"
	"encoding/binary"
	"errors"
	"fmt"
	"sort"
	"strconv"
	"strings"

	"github.com/thomasjungblut/go-sstables/pq"
	"github.com/thomasjungblut/go-sstables/skiplist"
)

// ---------------------------------------------------------------------------------------------
// stream "skip": skip-list map under int / string / byte comparators (C16)

// order preserving encoding of an int64 as 8 bytes
func intKey(v int64) []byte {
	var b [8]byte
	binary.BigEndian.PutUint64(b[:], uint64(v)^(1<<63))
	return b[:]
}

type skipOps interface {
	insert(k []byte, v string) (panicked bool)
	size() int
	get(k []byte) (string, bool)
	has(k []byte) bool
	iter(kind string, a, b []byte) (string, error)
	// open creates an iterator and hands out its Next: (entry "k=v", done, error); rejected = the constructor refused
	open(kind string, a, b []byte) (next func() (string, bool, error), rejected bool)
}

type skipImpl[K any] struct {
	m    skiplist.MapI[K, string]
	conv func([]byte) K
	back func(K) []byte
}

func (s *skipImpl[K]) insert(k []byte, v string) (panicked bool) {
	defer func() {
		if r := recover(); r != nil {
			panicked = true
		}
	}()
	s.m.Insert(s.conv(k), v)
	return false
}
func (s *skipImpl[K]) size() int { return s.m.Size() }
func (s *skipImpl[K]) get(k []byte) (string, bool) {
	v, err := s.m.Get(s.conv(k))
	if err != nil {
		return "", false
	}
	return v, true
}
func (s *skipImpl[K]) has(k []byte) bool { return s.m.Contains(s.conv(k)) }
func (s *skipImpl[K]) iter(kind string, a, b []byte) (string, error) {
	var it skiplist.IteratorI[K, string]
	var err error
	switch kind {
	case "all":
		it, err = s.m.Iterator()
	case "from":
		it, err = s.m.IteratorStartingAt(s.conv(a))
	case "between":
		it, err = s.m.IteratorBetween(s.conv(a), s.conv(b))
	}
	if err != nil {
		return "rejected", nil
	}
	var parts []string
	for i := 0; i < 1000000; i++ {
		k, v, e := it.Next()
		if errors.Is(e, skiplist.Done) {
			break
		}
		if e != nil {
			return "", e
		}
		parts = append(parts, gb(nonNil(s.back(k)))+"="+v)
	}
	if len(parts) == 0 {
		return "[]", nil
	}
	return strings.Join(parts, ";"), nil
}

func (s *skipImpl[K]) open(kind string, a, b []byte) (func() (string, bool, error), bool) {
	var it skiplist.IteratorI[K, string]
	var err error
	switch kind {
	case "all":
		it, err = s.m.Iterator()
	case "from":
		it, err = s.m.IteratorStartingAt(s.conv(a))
	case "between":
		it, err = s.m.IteratorBetween(s.conv(a), s.conv(b))
	}
	if err != nil {
		return nil, true
	}
	return func() (string, bool, error) {
		k, v, e := it.Next()
		if errors.Is(e, skiplist.Done) {
			return "", true, nil
		}
		if e != nil {
			return "", false, e
		}
		return gb(nonNil(s.back(k))) + "=" + v, false, nil
	}, false
}

// newSkipImpl: a fresh map under the named comparator (scale != 1: a consistent byte comparator with other magnitudes)
func newSkipImpl(cmp string, scale int) skipOps { return newSkipImplOrd(cmp, scale, bytesOrder) }

// byteOrder: a total, consistent order on byte strings which the Lean driver knows by name (`cmp=<name>`); cmp's sign counts
type byteOrder struct {
	name string
	cmp  func(a, b []byte) int
}

func mapBytes(b []byte, f func(byte) byte) []byte {
	o := make([]byte, len(b))
	for i, x := range b {
		o[i] = f(x)
	}
	return o
}

func lowerASCII(x byte) byte {
	if x >= 'A' && x <= 'Z' {
		return x + 0x20
	}
	return x
}

func reversedBytes(b []byte) []byte {
	o := make([]byte, len(b))
	for i, x := range b {
		o[len(b)-1-i] = x
	}
	return o
}

var bytesOrder = &byteOrder{"bytes", bytes.Compare}

// orders on byte strings other than bytes.Compare (all total and consistent; "fold" identifies keys that differ in case only)
var otherOrders = []*byteOrder{
	{"rev", func(a, b []byte) int { return bytes.Compare(b, a) }}, // descending
	{"shortlex", func(a, b []byte) int {
		if len(a) != len(b) {
			return len(a) - len(b)
		}
		return bytes.Compare(a, b)
	}},
	{"revshortlex", func(a, b []byte) int { // longer keys first
		if len(a) != len(b) {
			return len(b) - len(a)
		}
		return bytes.Compare(a, b)
	}},
	{"last", func(a, b []byte) int { return bytes.Compare(reversedBytes(a), reversedBytes(b)) }}, // last byte first
	{"signed", func(a, b []byte) int { // bytes as int8 (0x80..0xff sort before 0x00..0x7f)
		f := func(x byte) byte { return x ^ 0x80 }
		return bytes.Compare(mapBytes(a, f), mapBytes(b, f))
	}},
	{"foldtie", func(a, b []byte) int { // case-insensitive, ties broken by the bytes
		if c := bytes.Compare(mapBytes(a, lowerASCII), mapBytes(b, lowerASCII)); c != 0 {
			return c
		}
		return bytes.Compare(a, b)
	}},
	{"fold", func(a, b []byte) int { return bytes.Compare(mapBytes(a, lowerASCII), mapBytes(b, lowerASCII)) }}, // case-insensitive
}

// alphabet of the keys compared under these orders: both cases of two letters and both sides of the int8 sign
var orderAlphabet = []byte{0, 1, 'A', 'B', 'a', 'b', 0x7f, 0x80, 0xff}

// ordCmp: the comparator of a byteOrder for any key type with a byte form. mag > 0: results are -mag/0/+mag;
// mag == 0: the magnitude depends on the two keys (as a difference-style comparator's does)
type ordCmp[K any] struct {
	ord  *byteOrder
	mag  int
	back func(K) []byte
}

func (c ordCmp[K]) Compare(a, b K) int {
	x, y := c.back(a), c.back(b)
	s := c.ord.cmp(x, y)
	if s == 0 {
		return 0
	}
	m := c.mag
	if m == 0 {
		m = 1
		for _, v := range x {
			m += int(v)
		}
		for _, v := range y {
			m += int(v)
		}
	}
	if s < 0 {
		return -m
	}
	return m
}

// skipRef: the reference map of the skip streams under a byteOrder (keys equal under the order are one key; the first
// inserted spelling and value stay, as Insert refuses duplicates)
type skipRef struct {
	ord  *byteOrder
	keys [][]byte // sorted by ord
	vals []string
}

func (m *skipRef) find(k []byte) int {
	for i, x := range m.keys {
		if m.ord.cmp(x, k) == 0 {
			return i
		}
	}
	return -1
}

func (m *skipRef) get(k []byte) (string, bool) {
	if i := m.find(k); i >= 0 {
		return m.vals[i], true
	}
	return "", false
}

// put inserts unless the key is there already (reported)
func (m *skipRef) put(k []byte, v string) (dup bool) {
	if m.find(k) >= 0 {
		return true
	}
	i := 0
	for i < len(m.keys) && m.ord.cmp(m.keys[i], k) < 0 {
		i++
	}
	m.keys = append(m.keys, nil)
	copy(m.keys[i+1:], m.keys[i:])
	m.keys[i] = k
	m.vals = append(m.vals, "")
	copy(m.vals[i+1:], m.vals[i:])
	m.vals[i] = v
	return false
}

func (m *skipRef) list(pred func(k []byte) bool) string {
	var parts []string
	for i, k := range m.keys {
		if pred(k) {
			parts = append(parts, gb(nonNil(k))+"="+m.vals[i])
		}
	}
	if len(parts) == 0 {
		return "[]"
	}
	return strings.Join(parts, ";")
}

func (m *skipRef) size() int { return len(m.keys) }

// the driver's option for an order ("" for bytes.Compare: the command as it always was)
func (o *byteOrder) drvOpt() string {
	if o == bytesOrder {
		return ""
	}
	return "cmp=" + o.name + " "
}

// newSkipImplOrd: a fresh map of the key type `cmp` ordered by ord with result magnitudes `scale`
func newSkipImplOrd(cmp string, scale int, ord *byteOrder) skipOps {
	if ord != bytesOrder {
		switch cmp {
		case "int":
			return &skipImpl[int64]{m: skiplist.NewSkipListMap[int64, string](ordCmp[int64]{ord, scale, intKey}), conv: decodeIntKey, back: intKey}
		case "string":
			back := func(s string) []byte { return []byte(s) }
			return &skipImpl[string]{m: skiplist.NewSkipListMap[string, string](ordCmp[string]{ord, scale, back}),
				conv: func(b []byte) string { return string(b) }, back: back}
		}
		id := func(b []byte) []byte { return b }
		return &skipImpl[[]byte]{m: skiplist.NewSkipListMap[[]byte, string](ordCmp[[]byte]{ord, scale, id}), conv: id, back: id}
	}
	switch cmp {
	case "int":
		return &skipImpl[int64]{m: skiplist.NewSkipListMap[int64, string](skiplist.OrderedComparator[int64]{}), conv: decodeIntKey, back: intKey}
	case "string":
		return &skipImpl[string]{m: skiplist.NewSkipListMap[string, string](skiplist.OrderedComparator[string]{}),
			conv: func(b []byte) string { return string(b) }, back: func(s string) []byte { return []byte(s) }}
	}
	var bc skiplist.Comparator[[]byte] = skiplist.BytesComparator{}
	if scale != 1 {
		bc = scaledBytesCmp{scale}
	}
	return &skipImpl[[]byte]{m: skiplist.NewSkipListMap[[]byte, string](bc),
		conv: func(b []byte) []byte { return b }, back: func(b []byte) []byte { return b }}
}

func decodeIntKey(b []byte) int64 { return int64(binary.BigEndian.Uint64(b) ^ (1 << 63)) }

func runSkip(res *Result, drv *Driver, seed uint64, n int, tier string, only int) error {
	res.Rule = "insertion sequences (all permutations of up to 6 keys first, then random; duplicates included) x {int,string,bytes} comparators x all probes/bounds; " +
		"non-trivial = at least 2 keys inserted; distinct = distinct (comparator, insertion sequence). " +
		"Every case also runs an OP PROGRAM on a fresh map over a small key universe: Insert / Get / Contains (hits, misses, duplicate inserts; " +
		"miss(k), Insert(others), Insert(k)) in any order, each lookup compared where it happens, the whole map compared after every 1-5 ops and at the end, " +
		"and ITERATOR PROGRAMS (2-9 full / starting-at / between iterators alive at once, advanced in interleaved order, Next repeated after Done while " +
		"others are created and drained); non-trivial program = at least 2 keys and one interleaved lookup, distinct = distinct program. " +
		"Every case runs a third time under a comparator that defines ANOTHER ORDER than bytes.Compare (descending, shortlex, longer-first, last byte first, " +
		"bytes as int8, case-insensitive with and without tie-break = coarser key equality; result magnitudes 1, k and key-dependent) for []byte, string and " +
		"int keys: an insertion sequence with all probes / bound pairs and an op program with iterator programs, reference and model under the same order"
	// case list: exhaustive permutations of small key sets come first
	type skCase struct {
		cmp  string
		keys [][]byte
	}
	var cases []skCase
	perms := func(k int) [][]int {
		var out [][]int
		var rec func(cur []int, used []bool)
		rec = func(cur []int, used []bool) {
			if len(cur) == k {
				out = append(out, append([]int{}, cur...))
				return
			}
			for i := 0; i < k; i++ {
				if !used[i] {
					used[i] = true
					rec(append(cur, i), used)
					used[i] = false
				}
			}
		}
		rec(nil, make([]bool, k))
		return out
	}
	maxPerm := 5
	if tier == "thorough" {
		maxPerm = 7
	}
	for k := 0; k <= maxPerm; k++ {
		for _, p := range perms(k) {
			keys := make([][]byte, k)
			for i, x := range p {
				keys[i] = intKey(int64(x*3 - 4)) // includes negatives
			}
			cases = append(cases, skCase{"int", keys})
		}
	}
	exhaustive := len(cases)
	res.StatN("exhaustive-permutation-cases", exhaustive)
	for i := 0; i < n; i++ {
		r := NewRng(seed, uint64(i))
		c := skCase{cmp: []string{"int", "string", "bytes"}[r.Intn(3)]}
		cnt := r.Intn(40)
		universe := 1 + r.Intn(60)
		for j := 0; j < cnt; j++ {
			switch c.cmp {
			case "int":
				c.keys = append(c.keys, intKey(int64(r.Intn(universe))-int64(universe/2)))
			default:
				kl := r.Intn(4)
				k := make([]byte, kl)
				for x := range k {
					k[x] = []byte{0, 1, 'a', 'b', 0xff}[r.Intn(5)]
				}
				c.keys = append(c.keys, k)
			}
		}
		cases = append(cases, c)
	}
	for idx, c := range cases {
		if only >= 0 && idx != only {
			continue
		}
		r := NewRng(seed^0xabcdef, uint64(idx))
		res.Cases++
		res.Stat("cmp:" + c.cmp)
		var impl skipOps
		switch c.cmp {
		case "int":
			impl = &skipImpl[int64]{m: skiplist.NewSkipListMap[int64, string](skiplist.OrderedComparator[int64]{}), conv: decodeIntKey, back: intKey}
		case "string":
			impl = &skipImpl[string]{m: skiplist.NewSkipListMap[string, string](skiplist.OrderedComparator[string]{}),
				conv: func(b []byte) string { return string(b) }, back: func(s string) []byte { return []byte(s) }}
		default:
			var bc skiplist.Comparator[[]byte] = skiplist.BytesComparator{}
			if sc := []int{1, 3, 1000}[r.Intn(3)]; sc != 1 {
				bc = scaledBytesCmp{sc}
				res.Stat("cmp:magnitudes-other-than-1")
			}
			impl = &skipImpl[[]byte]{m: skiplist.NewSkipListMap[[]byte, string](bc),
				conv: func(b []byte) []byte { return b }, back: func(b []byte) []byte { return b }}
		}
		if err := runSkipStatic(res, drv, idx, r, c.cmp, c.keys, impl, bytesOrder, c.cmp, "skip:"); err != nil {
			return err
		}
		if err := runSkipProgram(res, drv, seed, idx, c.cmp, tier); err != nil {
			return err
		}
		if err := runSkipOrders(res, drv, seed, idx, tier); err != nil {
			return err
		}
	}
	return nil
}

// first part of every "skip" case: the insertion sequence `keys` goes into impl (a map of key type cmpName ordered by ord),
// then size, the full iteration, Get / Contains / starting-at of every probe key and the bound pairs are compared with the
// reference map under ord and with the model
func runSkipStatic(res *Result, drv *Driver, idx int, r *Rng, cmpName string, keys [][]byte, impl skipOps, ord *byteOrder, csPrefix, sigp string) error {
	// reference map
	ref := &skipRef{ord: ord}
	var insTok, insOut []string
	for j, k := range keys {
		v := "v" + strconv.Itoa(j)
		h := 1 + r.Intn(12)
		if r.Chance(20) {
			h = []int{1, 12}[r.Intn(2)]
		}
		insTok = append(insTok, fmt.Sprintf("%s:%s:%d", gb(nonNil(k)), v, h))
		p := impl.insert(k, v)
		_, dup := ref.get(k)
		if i := ref.find(k); i >= 0 && !bytes.Equal(ref.keys[i], k) {
			res.Stat("order:insert-of-equal-key-in-other-spelling")
		}
		if p {
			insOut = append(insOut, "panic")
			res.Stat("dup-insert")
		} else {
			insOut = append(insOut, "ok")
			if !dup {
				ref.put(k, v)
			}
		}
		res.Evaluations++
		if p != dup {
			res.Violate(idx, "C16", sigp+"dup-handling", fmt.Sprintf("insert #%d of key %x: panicked=%v but duplicate=%v", j, k, p, dup), strings.Join(insTok, ","))
		}
	}
	cs := csPrefix + " ins=" + strings.Join(insTok, ",")
	if ref.size() >= 2 {
		res.NoteNontrivial(cs)
	}
	res.Sample(cs)
	// sorted reference
	sk := append([][]byte{}, ref.keys...)
	refList := ref.list
	// probes: every present key, neighbours, and random ones; all bounds pairs for small sets
	var probeKeys [][]byte
	probeKeys = append(probeKeys, sk...)
	for i := 0; i < 4; i++ {
		if cmpName == "int" {
			probeKeys = append(probeKeys, intKey(int64(r.Intn(80))-40))
		} else {
			probeKeys = append(probeKeys, r.Bytes(r.Intn(3)))
		}
	}
	if cmpName != "int" {
		probeKeys = append(probeKeys, []byte{})
	}
	if len(probeKeys) > 14 {
		probeKeys = probeKeys[:14]
	}
	var probes, implOut []string
	add := func(p, got, want string) {
		probes = append(probes, p)
		implOut = append(implOut, got)
		res.Evaluations++
		if got != want {
			res.Violate(idx, "C16", sigp+strings.SplitN(p, ":", 2)[0], fmt.Sprintf("%s: want %s got %s", p, want, got), cs)
		}
	}
	add("size", strconv.Itoa(impl.size()), strconv.Itoa(ref.size()))
	all, err := impl.iter("all", nil, nil)
	if err != nil {
		return err
	}
	add("all", all, refList(func([]byte) bool { return true }))
	for _, k := range probeKeys {
		ks := gb(nonNil(k))
		v, ok := impl.get(k)
		got, want := "notfound", "notfound"
		if ok {
			got = "ok:" + v
		}
		if rv, ok := ref.get(k); ok {
			want = "ok:" + rv
		}
		add("get:"+ks, got, want)
		_, present := ref.get(k)
		add("has:"+ks, strconv.FormatBool(impl.has(k)), strconv.FormatBool(present))
		fr, err := impl.iter("from", k, nil)
		if err != nil {
			return err
		}
		kk := k
		add("from:"+ks, fr, refList(func(x []byte) bool { return ord.cmp(x, kk) >= 0 }))
	}
	for _, lo := range probeKeys {
		for _, hi := range probeKeys {
			if len(probeKeys) > 8 && !r.Chance(25) {
				continue
			}
			bt, err := impl.iter("between", lo, hi)
			if err != nil {
				return err
			}
			want := "rejected"
			if ord.cmp(lo, hi) <= 0 {
				l, h := lo, hi
				want = refList(func(x []byte) bool { return ord.cmp(x, l) >= 0 && ord.cmp(x, h) <= 0 })
			} else {
				res.Stat("between:lower>upper")
			}
			add("between:"+gb(nonNil(lo))+":"+gb(nonNil(hi)), bt, want)
		}
	}
	m, err := drv.Ask(fmt.Sprintf("skip.run %sins=%s probes=%s", ord.drvOpt(), strings.Join(insTok, ","), strings.Join(probes, ",")))
	if err != nil {
		return err
	}
	res.Cmp(idx, "skip.run", m, "ins="+strings.Join(insOut, ",")+" "+strings.Join(implOut, " "), cs)
	return nil
}

// ---------------------------------------------------------------------------------------------
// third part of every "skip" case: the map under a comparator whose ORDER is not that of bytes.Compare (the property
// quantifies over any consistent comparator). An insertion sequence with all probes and bound pairs, then an op program
// with iterator programs; the reference map and the model (driver option cmp=<name>) use the same order. All choices
// come from generator states of their own, the first two parts of the case are what they were.
func runSkipOrders(res *Result, drv *Driver, seed uint64, idx int, tier string) error {
	r := NewRng(seed^0x07de7ed0c0ffee, uint64(idx))
	ord := otherOrders[r.Intn(len(otherOrders))]
	kt := "bytes"
	switch x := r.Intn(100); {
	case x < 15:
		kt = "int"
	case x < 30:
		kt = "string"
	}
	mag := []int{1, 1, 3, 1000, 0}[r.Intn(5)]
	res.Stat("order:" + ord.name)
	res.Stat("order:keytype:" + kt)
	res.Stat(fmt.Sprintf("order:magnitude=%d", mag))
	var keys [][]byte
	cnt := r.Intn(24)
	universe := 1 + r.Intn(200)
	for j := 0; j < cnt; j++ {
		if kt == "int" {
			keys = append(keys, intKey(int64(r.Intn(universe))-int64(universe/2)))
			continue
		}
		k := make([]byte, r.Intn(4))
		for x := range k {
			k[x] = orderAlphabet[r.Intn(len(orderAlphabet))]
		}
		keys = append(keys, k)
	}
	impl := newSkipImplOrd(kt, mag, ord)
	if err := runSkipStatic(res, drv, idx, r, kt, keys, impl, ord, fmt.Sprintf("%s order=%s magnitude=%d", kt, ord.name, mag), "skip:order:"); err != nil {
		return err
	}
	return runSkipProgramOrd(res, drv, seed^0x0b5e9a11c0de^0x6f7264657273, idx, kt, tier, ord)
}

// ---------------------------------------------------------------------------------------------
// second part of every "skip" case: an OP PROGRAM on a fresh map. Insert / Get / Contains (hits, misses, duplicate
// inserts) come in any order; after every few operations and at the end the whole map is compared (size, Get/Contains
// of every key of the universe, full iteration, starting-at and range iterators), and at some of these points an
// ITERATOR PROGRAM runs: several iterators alive at once, advanced in interleaved order, Next called again on
// iterators that already reported Done while new ones are created and drained.
// The model is pure: every run of lookups between two inserts is sent with the inserts performed so far.

type skipOp struct {
	kind string // ins, get, has, check
	key  []byte
}

func runSkipProgram(res *Result, drv *Driver, seed uint64, idx int, cmp string, tier string) error {
	return runSkipProgramOrd(res, drv, seed^0x0b5e9a11c0de, idx, cmp, tier, bytesOrder)
}

// the op program on a map ordered by ord (bytesOrder: the programs of runSkipProgram); salted = seed ^ salt of the caller
func runSkipProgramOrd(res *Result, drv *Driver, salted uint64, idx int, cmp string, tier string, ord *byteOrder) error {
	r := NewRng(salted, uint64(idx))
	scale := 1
	sp := "skip:"
	alphabet := []byte{0, 1, 'a', 'b', 0xff}
	if ord != bytesOrder {
		// any key type, magnitudes incl. key-dependent ones (0), keys in both cases and on both sides of the int8 sign
		scale = []int{1, 1, 2, 255, 1 << 20, 0}[r.Intn(6)]
		sp = "skip:order:"
		alphabet = orderAlphabet
	} else if cmp == "bytes" {
		scale = []int{1, 1, 2, 255, 1 << 20}[r.Intn(5)]
	}
	impl := newSkipImplOrd(cmp, scale, ord)
	// key universe
	usz := 2 + r.Intn(10)
	seen := map[string]bool{}
	var uni [][]byte
	for tries := 0; len(uni) < usz && tries < 200; tries++ {
		var k []byte
		if cmp == "int" {
			k = intKey(int64(r.Intn(40)) - 20)
		} else {
			k = make([]byte, r.Intn(4))
			for x := range k {
				k[x] = alphabet[r.Intn(len(alphabet))]
			}
		}
		if !seen[string(k)] {
			seen[string(k)] = true
			uni = append(uni, k)
		}
	}
	sort.Slice(uni, func(a, b int) bool { return bytes.Compare(uni[a], uni[b]) < 0 }) // (the description's order only)
	// generate the program (simulating which keys are present, to aim lookups at hits and misses)
	nops := r.Intn(40)
	if tier == "thorough" && r.Chance(20) {
		nops = 40 + r.Intn(120)
	}
	present := map[string]bool{}
	absent := func() [][]byte {
		var a [][]byte
		for _, k := range uni {
			if !present[string(k)] {
				a = append(a, k)
			}
		}
		return a
	}
	var ops []skipOp
	lookup := func(k []byte) skipOp { return skipOp{[]string{"get", "has"}[r.Intn(2)], k} }
	nextCheck := 1 + r.Intn(5)
	for len(ops) < nops {
		switch x := r.Intn(100); {
		case x < 35:
			k := uni[r.Intn(len(uni))]
			ops = append(ops, skipOp{"ins", k})
			present[string(k)] = true
		case x < 75:
			ops = append(ops, lookup(uni[r.Intn(len(uni))]))
		default:
			// look a key up that is absent, insert it afterwards (the memstore's pattern), other absent keys possibly first
			a := absent()
			if len(a) == 0 {
				ops = append(ops, lookup(uni[r.Intn(len(uni))]))
				break
			}
			k := a[r.Intn(len(a))]
			ops = append(ops, lookup(k))
			for j := r.Intn(3); j > 0; j-- {
				o := a[r.Intn(len(a))]
				if !bytes.Equal(o, k) {
					ops = append(ops, skipOp{"ins", o})
					present[string(o)] = true
				}
			}
			ops = append(ops, skipOp{"ins", k})
			present[string(k)] = true
		}
		if len(ops) >= nextCheck {
			ops = append(ops, skipOp{kind: "check"})
			nextCheck = len(ops) + 1 + r.Intn(5)
		}
	}
	ops = append(ops, skipOp{kind: "check"})
	var opTok []string
	for _, o := range ops {
		if o.kind == "check" {
			opTok = append(opTok, "check")
		} else {
			opTok = append(opTok, o.kind+":"+gb(nonNil(o.key)))
		}
	}
	cs := fmt.Sprintf("%s scale=%d program=%s", cmp, scale, strings.Join(opTok, ","))
	if ord != bytesOrder {
		cs = fmt.Sprintf("%s order=%s scale=%d program=%s", cmp, ord.name, scale, strings.Join(opTok, ","))
		res.Stat("order:programs:" + ord.name)
	}
	res.Stat("prog:programs")
	res.StatN("prog:ops", len(ops))

	ref := &skipRef{ord: ord}
	refList := ref.list
	var insTok, insOut []string
	var probes, implOut []string
	at := 0 // index of the op being executed
	add := func(sig, p, got, want, extra string) {
		probes = append(probes, p)
		implOut = append(implOut, got)
		res.Evaluations++
		if got != want {
			res.Violate(idx, "C16", sig, fmt.Sprintf("op #%d %s: want %s got %s", at, p, want, got), cs+extra)
		}
	}
	flush := func() error {
		if len(probes) == 0 {
			return nil
		}
		m, err := drv.Ask(fmt.Sprintf("skip.run %sins=%s probes=%s", ord.drvOpt(), strings.Join(insTok, ","), strings.Join(probes, ",")))
		if err != nil {
			return err
		}
		res.Cmp(idx, fmt.Sprintf("skip.run (op program, lookups after %d inserts, up to op #%d)", len(insTok), at), m,
			"ins="+strings.Join(insOut, ",")+" "+strings.Join(implOut, " "), cs)
		probes, implOut = nil, nil
		return nil
	}
	doLookup := func(sigp string, kind string, k []byte) {
		ks := gb(nonNil(k))
		rv, in := ref.get(k)
		if kind == "get" {
			v, ok := impl.get(k)
			got, want := "notfound", "notfound"
			if ok {
				got = "ok:" + v
			}
			if in {
				want = "ok:" + rv
			}
			add(sigp+"get", "get:"+ks, got, want, "")
		} else {
			add(sigp+"has", "has:"+ks, strconv.FormatBool(impl.has(k)), strconv.FormatBool(in), "")
		}
	}
	// bounds for iterators: keys of the universe and now and then a key outside of it
	bound := func() []byte {
		if r.Chance(15) {
			if cmp == "int" {
				return intKey(int64(r.Intn(50)) - 25)
			}
			return r.Bytes(r.Intn(3))
		}
		return uni[r.Intn(len(uni))]
	}
	var missKey []byte // key of the latest lookup that came back empty, nil after the next lookup hit / when consumed
	othersSince := 0
	lookups := 0
	for i, o := range ops {
		at = i
		switch o.kind {
		case "ins":
			if err := flush(); err != nil {
				return err
			}
			v := "w" + strconv.Itoa(len(insTok))
			insTok = append(insTok, fmt.Sprintf("%s:%s:%d", gb(nonNil(o.key)), v, 1+r.Intn(12)))
			p := impl.insert(o.key, v)
			_, dup := ref.get(o.key)
			if i := ref.find(o.key); i >= 0 && !bytes.Equal(ref.keys[i], o.key) {
				res.Stat("order:insert-of-equal-key-in-other-spelling")
			}
			res.Evaluations++
			if p != dup {
				res.Violate(idx, "C16", sp+"ops:dup-handling", fmt.Sprintf("op #%d insert of key %x: panicked=%v but duplicate=%v", i, o.key, p, dup), cs)
			}
			if p {
				insOut = append(insOut, "panic")
				res.Stat("prog:dup-insert")
			} else {
				insOut = append(insOut, "ok")
			}
			if !dup {
				ref.put(o.key, v)
			}
			if missKey != nil {
				if bytes.Equal(missKey, o.key) {
					if othersSince > 0 {
						res.Stat("prog:miss(k),insert(others),insert(k)")
					} else {
						res.Stat("prog:miss(k),insert(k)")
					}
					missKey = nil
				} else if !dup {
					othersSince++
				}
			}
		case "get", "has":
			lookups++
			if _, in := ref.get(o.key); in {
				res.Stat("prog:lookup-hit")
				missKey = nil
			} else {
				res.Stat("prog:lookup-miss")
				missKey, othersSince = o.key, 0
			}
			doLookup(sp+"ops:", o.kind, o.key)
		case "check":
			res.Stat("prog:full-comparisons")
			add(sp+"ops:size", "size", strconv.Itoa(impl.size()), strconv.Itoa(ref.size()), "")
			all, err := impl.iter("all", nil, nil)
			if err != nil {
				return err
			}
			add(sp+"ops:all", "all", all, refList(func([]byte) bool { return true }), "")
			// the full comparison's lookups do not count as lookups of the program (they would hide a remembered miss):
			// they run on every SECOND comparison only, the others compare by iteration alone
			if r.Chance(50) {
				for _, k := range uni {
					doLookup(sp+"ops:check-", "get", k)
					doLookup(sp+"ops:check-", "has", k)
				}
				missKey = nil
			}
			for j := 0; j < 3; j++ {
				k := bound()
				fr, err := impl.iter("from", k, nil)
				if err != nil {
					return err
				}
				kk := k
				add(sp+"ops:from", "from:"+gb(nonNil(k)), fr, refList(func(x []byte) bool { return ord.cmp(x, kk) >= 0 }), "")
				lo, hi := bound(), bound()
				bt, err := impl.iter("between", lo, hi)
				if err != nil {
					return err
				}
				want := "rejected"
				if ord.cmp(lo, hi) <= 0 {
					want = refList(func(x []byte) bool { return ord.cmp(x, lo) >= 0 && ord.cmp(x, hi) <= 0 })
				}
				add(sp+"ops:between", "between:"+gb(nonNil(lo))+":"+gb(nonNil(hi)), bt, want, "")
			}
			if r.Chance(40) || i == len(ops)-1 {
				// iterator program on the current map
				res.Stat("iters:programs")
				type slot struct {
					probe, want string
					next        func() (string, bool, error)
					got         []string
					done        bool
					calls       int
				}
				var slots []*slot
				var sched []string
				open := func() {
					sl := &slot{}
					kind := []string{"all", "from", "between"}[r.Intn(3)]
					var a, b []byte
					switch kind {
					case "all":
						sl.probe, sl.want = "all", refList(func([]byte) bool { return true })
					case "from":
						a = bound()
						sl.probe, sl.want = "from:"+gb(nonNil(a)), refList(func(x []byte) bool { return ord.cmp(x, a) >= 0 })
					default:
						a, b = bound(), bound()
						if ord.cmp(a, b) > 0 && r.Chance(80) {
							a, b = b, a
						}
						sl.probe = "between:" + gb(nonNil(a)) + ":" + gb(nonNil(b))
						sl.want = "rejected"
						if ord.cmp(a, b) <= 0 {
							sl.want = refList(func(x []byte) bool { return ord.cmp(x, a) >= 0 && ord.cmp(x, b) <= 0 })
						}
					}
					res.Stat("iters:opened:" + kind)
					sched = append(sched, fmt.Sprintf("open#%d=%s", len(slots), sl.probe))
					nx, rejected := impl.open(kind, a, b)
					if rejected {
						sl.done = true
						sl.got = []string{"rejected"}
					} else {
						sl.next = nx
					}
					slots = append(slots, sl)
				}
				limit := ref.size() + 6
				var iterErr error
				step := func(j int) {
					sl := slots[j]
					if sl.next == nil || sl.calls > limit {
						return
					}
					sl.calls++
					sched = append(sched, fmt.Sprintf("next#%d", j))
					e, done, err := sl.next()
					if err != nil {
						iterErr = err
						return
					}
					switch {
					case done && sl.done:
						res.Stat("iters:next-after-done:done-again")
						res.Evaluations++
					case done:
						sl.done = true
					case sl.done:
						// Done is final: an element after it is reported, and kept in the answer so that the model differs too
						res.Evaluations++
						res.Violate(idx, "C16", sp+"iters:next-after-done", fmt.Sprintf("op #%d iterator #%d (%s) had reported Done, a later Next returned %s", at, j, sl.probe, e),
							cs+" iterators@op#"+strconv.Itoa(at)+"="+strings.Join(sched, ","))
						sl.got = append(sl.got, "AFTER-DONE:"+e)
					default:
						sl.got = append(sl.got, e)
					}
				}
				alive := func() int {
					n := 0
					for _, sl := range slots {
						if !sl.done {
							n++
						}
					}
					return n
				}
				for j := 2 + r.Intn(3); j > 0; j-- {
					open()
				}
				maxAlive := alive()
				for st := r.Intn(60); st > 0 && iterErr == nil; st-- {
					switch x := r.Intn(100); {
					case x < 65:
						step(r.Intn(len(slots)))
					case x < 80 && len(slots) < 9:
						open()
						if a := alive(); a > maxAlive {
							maxAlive = a
						}
					case x < 90:
						// drain one completely
						j := r.Intn(len(slots))
						for c := 0; !slots[j].done && c <= limit && iterErr == nil; c++ {
							step(j)
						}
					default:
						// an exhausted one is asked again
						var dn []int
						for j, sl := range slots {
							if sl.done && sl.next != nil {
								dn = append(dn, j)
							}
						}
						if len(dn) > 0 {
							step(dn[r.Intn(len(dn))])
						}
					}
				}
				// drain the rest in round-robin order, then ask every one once more
				for c := 0; alive() > 0 && c <= limit && iterErr == nil; c++ {
					for j, sl := range slots {
						if !sl.done {
							step(j)
						}
					}
				}
				for j := range slots {
					step(j)
				}
				if iterErr != nil {
					return iterErr
				}
				res.Stat(fmt.Sprintf("iters:max-alive-at-once=%d", maxAlive))
				extra := " iterators@op#" + strconv.Itoa(at) + "=" + strings.Join(sched, ",")
				for _, sl := range slots {
					got := "[]"
					if len(sl.got) > 0 {
						got = strings.Join(sl.got, ";")
					}
					if !sl.done {
						got += ";NO-DONE"
					}
					add(sp+"iters:"+strings.SplitN(sl.probe, ":", 2)[0], sl.probe, got, sl.want, extra)
				}
			}
		}
	}
	at = len(ops)
	if err := flush(); err != nil {
		return err
	}
	if ref.size() >= 2 && lookups > 0 {
		res.NoteNontrivial(cs)
	}
	return nil
}

// a consistent comparator that does not restrict itself to -1/0/+1 (the documented contract is <0, 0, >0)
type scaledBytesCmp struct{ k int }

func (c scaledBytesCmp) Compare(a, b []byte) int { return c.k * bytes.Compare(a, b) }

// ---------------------------------------------------------------------------------------------
// stream "pq": k-way merge heap (C16)

// how an input signals exhaustion: the bare sentinel, or an error that wraps it (errors.Is is the documented test)
const (
	pqDoneBare = iota
	pqDoneWrapped
	pqDoneWrappedTwice
)

var pqDoneNames = []string{"bare", "wrapped", "wrapped-twice"}

var errPqRead = errors.New("injected read fault")

type sliceIter struct {
	items  [][2][]byte
	pos    int
	ctx    int
	done   int // pqDone*
	failAt int // -1: never; otherwise the call (0-based) that returns a real error instead of its element / of Done
	calls  int
	hit    bool
}

func (s *sliceIter) Next() ([]byte, []byte, error) {
	n := s.calls
	s.calls++
	if s.failAt >= 0 && n >= s.failAt {
		s.hit = true
		return nil, nil, fmt.Errorf("input %d: reading element %d: %w", s.ctx, n, errPqRead)
	}
	if s.pos >= len(s.items) {
		switch s.done {
		case pqDoneWrapped:
			return nil, nil, fmt.Errorf("input %d exhausted: %w", s.ctx, pq.Done)
		case pqDoneWrappedTwice:
			return nil, nil, fmt.Errorf("merge source: %w", fmt.Errorf("input %d exhausted: %w", s.ctx, pq.Done))
		}
		return nil, nil, pq.Done
	}
	it := s.items[s.pos]
	s.pos++
	return it[0], it[1], nil
}
func (s *sliceIter) Context() int { return s.ctx }

func runPq(res *Result, drv *Driver, seed uint64, n int, tier string, only int) error {
	res.Rule = "0..8 ascending inputs of differing lengths over a small key alphabet (duplicates across inputs, empty inputs, empty key); " +
		"each input signals exhaustion with the bare pq.Done or with an error wrapping it (inputs empty from the start and inputs that run dry later); " +
		"15% of the cases have one input whose k-th call returns a real error (wrapping another sentinel) instead of its element or of Done; " +
		"non-trivial = at least 2 non-empty inputs; distinct = distinct input lists. " +
		"Every case index runs a second case (generator states of its own) whose comparator defines ANOTHER ORDER than bytes.Compare (descending, shortlex, " +
		"longer-first, last byte first, bytes as int8, case-insensitive with/without tie-break; magnitudes 1, k, key-dependent): inputs of 0-3 byte keys " +
		"ascending in that order, reference and model under the same order"
	for idx := 0; idx < n; idx++ {
		if only >= 0 && idx != only {
			continue
		}
		for variant := 0; variant < 2; variant++ {
			if err := runPqCase(res, drv, seed, idx, tier, variant); err != nil {
				return err
			}
		}
	}
	return nil
}

// one case of "pq". variant 0: the comparator orders like bytes.Compare; variant 1: another order (otherOrders), every
// random choice from generator states of its own
func runPqCase(res *Result, drv *Driver, seed uint64, idx int, tier string, variant int) error {
	{
		ord := bytesOrder
		salt := uint64(0)
		if variant == 1 {
			salt = 0x6f72646572
		}
		r := NewRng(seed^salt, uint64(idx))
		if variant == 1 {
			ord = otherOrders[r.Intn(len(otherOrders))]
			res.Stat("order:" + ord.name)
		}
		res.Cases++
		k := r.Intn(9)
		universe := 1 + r.Intn(12)
		var inputs [][][2][]byte
		nonEmpty := 0
		for i := 0; i < k && variant == 1; i++ {
			// keys of 0-3 bytes over both cases of two letters and both sides of the int8 sign, ascending in the order
			// (keys the order holds equal appear once per input)
			ln := r.Intn(8)
			if r.Chance(15) {
				ln = 0
			}
			if tier == "thorough" && r.Chance(5) {
				ln = 50 + r.Intn(200)
			}
			set := &skipRef{ord: ord}
			for j := 0; j < ln; j++ {
				key := make([]byte, r.Intn(4))
				if universe < 4 && len(key) > 1 {
					key = key[:1] // small universes: many duplicates across the inputs
				}
				for x := range key {
					key[x] = orderAlphabet[r.Intn(len(orderAlphabet))]
				}
				set.put(key, "")
			}
			var in [][2][]byte
			for j, key := range set.keys {
				in = append(in, [2][]byte{key, []byte(fmt.Sprintf("v%d.%d", i, j))})
			}
			if len(in) > 0 {
				nonEmpty++
			}
			inputs = append(inputs, in)
		}
		for i := 0; i < k && variant == 0; i++ {
			ln := r.Intn(8)
			if r.Chance(15) {
				ln = 0
			}
			if tier == "thorough" && r.Chance(5) {
				ln = 50 + r.Intn(200)
			}
			set := map[int]bool{}
			for j := 0; j < ln; j++ {
				set[r.Intn(universe+ln)] = true
			}
			var ks []int
			for x := range set {
				ks = append(ks, x)
			}
			sort.Ints(ks)
			var in [][2][]byte
			for _, x := range ks {
				key := []byte{byte(x)}
				if x > 255 {
					// long inputs (thorough tier) exceed one byte: continue above ff so that the input stays ascending
					key = []byte{0xff, byte(x - 255)}
				}
				if x == 0 && r.Chance(50) {
					key = []byte{} // the empty key sorts first
				}
				in = append(in, [2][]byte{key, []byte(fmt.Sprintf("v%d.%d", i, x))})
			}
			if len(in) > 0 {
				nonEmpty++
			}
			inputs = append(inputs, in)
		}
		res.Stat(fmt.Sprintf("inputs=%d", k))
		// exhaustion style per input and an optional failing input: drawn from a second generator state so that the
		// generated element lists are those of the plain cases
		r2 := NewRng(seed^salt^0x5eed0d09e, uint64(idx))
		styles := make([]int, k)
		anyWrapped := false
		wrapAll := r2.Chance(15)
		for i := range styles {
			if wrapAll || r2.Chance(35) {
				styles[i] = pqDoneWrapped + r2.Intn(2)
				anyWrapped = true
				if len(inputs[i]) == 0 {
					res.Stat("input:wrapped-done:empty-from-start")
				} else {
					res.Stat("input:wrapped-done:runs-dry-later")
				}
			} else {
				res.Stat("input:bare-done")
			}
		}
		failIn, failAt := -1, -1
		if k > 0 && r2.Chance(15) {
			failIn = r2.Intn(k)
			failAt = r2.Intn(len(inputs[failIn]) + 1)
			switch {
			case failAt == 0:
				res.Stat("input:read-error:first-call")
			case failAt == len(inputs[failIn]):
				res.Stat("input:read-error:instead-of-done")
			default:
				res.Stat("input:read-error:mid-input")
			}
		}
		var its []pq.IteratorWithContext[[]byte, []byte, int]
		var sis []*sliceIter
		var tok, tokCut, styleTok []string
		total := 0
		for i, in := range inputs {
			si := &sliceIter{items: in, ctx: i, done: styles[i], failAt: -1}
			if i == failIn {
				si.failAt = failAt
			}
			sis = append(sis, si)
			its = append(its, si)
			var parts []string
			for _, it := range in {
				parts = append(parts, gb(it[0])+":"+string(it[1]))
			}
			total += len(in)
			tok = append(tok, strings.Join(parts, ";"))
			if i == failIn {
				parts = parts[:failAt]
			}
			tokCut = append(tokCut, strings.Join(parts, ";"))
			styleTok = append(styleTok, pqDoneNames[styles[i]])
		}
		cs := "inputs=" + strings.Join(tok, "|")
		sigPrefix := "pq:"
		if variant == 1 {
			cs = "order=" + ord.name + " " + cs
			sigPrefix = "pq:order:"
		}
		if nonEmpty >= 2 {
			res.NoteNontrivial(cs)
		}
		res.Sample(cs)
		// what distinguishes the case beyond its element lists (part of the reported case, not of the distinctness key)
		csFull := cs + " done=" + strings.Join(styleTok, "|")
		if failIn >= 0 {
			csFull += fmt.Sprintf(" read-error=input %d call %d", failIn, failAt)
		}
		sigSuffix := ""
		if anyWrapped {
			sigSuffix = ":wrapped-done"
		}
		var cmp skiplist.Comparator[[]byte] = skiplist.BytesComparator{}
		if variant == 1 {
			mag := []int{1, 1, 2, 7, 1000, 0}[r.Intn(6)]
			cmp = ordCmp[[]byte]{ord, mag, func(b []byte) []byte { return b }}
			res.Stat(fmt.Sprintf("order:magnitude=%d", mag))
			csFull += fmt.Sprintf(" magnitude=%d", mag)
		} else if sc := []int{1, 1, 2, 7, 1000}[r.Intn(5)]; sc != 1 {
			cmp = scaledBytesCmp{sc}
			res.Stat("cmp:magnitudes-other-than-1")
		}
		type trip struct {
			k, v string
			c    int
		}
		var out []trip
		var outParts []string
		var runErr error // the non-Done error the queue reported (constructor or Next)
		terminated := false
		q, err := pq.NewPriorityQueue[[]byte, []byte, int](cmp, its)
		if err != nil {
			runErr = err
		} else {
			// a correct queue needs total+1 calls; a few more are granted before the run is declared non-terminating
			for j := 0; j < total+8; j++ {
				kk, v, c, err := q.Next()
				if errors.Is(err, pq.Done) {
					terminated = true
					break
				}
				if err != nil {
					runErr = err
					break
				}
				out = append(out, trip{string(kk), string(v), c})
				outParts = append(outParts, gb(nonNil(kk))+":"+string(v)+":"+strconv.Itoa(c))
			}
		}
		impl := "[]"
		if len(outParts) > 0 {
			impl = strings.Join(outParts, ";")
		}
		res.Evaluations++
		okSorted := true
		for j := 1; j < len(out); j++ {
			if ord.cmp([]byte(out[j-1].k), []byte(out[j].k)) > 0 {
				okSorted = false
			}
		}
		perInput := make([][]trip, len(inputs))
		for _, t := range out {
			if t.c < 0 || t.c >= len(inputs) {
				okSorted = false
				continue
			}
			perInput[t.c] = append(perInput[t.c], t)
		}
		if failIn >= 0 {
			// oracle for a failing input: the error must be reported (never Done, never an endless stream), it must be the
			// input's error and not pq.Done; what was emitted before is sorted and a prefix of every input
			switch {
			case runErr == nil && terminated:
				res.Violate(idx, "C16", sigPrefix+"read-error-absorbed"+sigSuffix, "an input returned a real error, the queue reported Done after: "+impl, csFull)
			case runErr == nil:
				res.Violate(idx, "C16", sigPrefix+"read-error-absorbed"+sigSuffix, "an input returned a real error, the queue keeps emitting elements: "+impl, csFull)
			case !errors.Is(runErr, errPqRead) || errors.Is(runErr, pq.Done):
				res.Violate(idx, "C16", sigPrefix+"read-error-replaced"+sigSuffix, "the queue reported "+runErr.Error()+" which is not the input's error", csFull)
			}
			if !sis[failIn].hit {
				res.Violate(idx, "C16", sigPrefix+"read-error-not-reached"+sigSuffix, "the queue finished without calling the failing input's Next often enough: "+impl, csFull)
			}
			okPrefix := true
			for i, in := range inputs {
				lim := len(in)
				if i == failIn {
					lim = failAt
				}
				if len(perInput[i]) > lim {
					okPrefix = false
					continue
				}
				for j := range perInput[i] {
					if string(in[j][0]) != perInput[i][j].k || string(in[j][1]) != perInput[i][j].v {
						okPrefix = false
					}
				}
			}
			if !okSorted {
				res.Violate(idx, "C16", sigPrefix+"order:before-read-error"+sigSuffix, "output not in non-descending key order: "+impl, csFull)
			}
			if !okPrefix {
				res.Violate(idx, "C16", sigPrefix+"elements:before-read-error"+sigSuffix, "output is not made of prefixes of the inputs: "+impl, csFull)
			}
			// model: the run is the run over the inputs with the failing one cut at the failing call, up to (excluding) the
			// element whose removal asks the failing input for its next element, i.e. its last element before the error
			line := "pq.run " + ord.drvOpt() + "inputs=" + strings.Join(tokCut, "|")
			m, err := drv.Ask(line)
			if err != nil {
				return err
			}
			want := m
			if !strings.Contains(m, "bad-op") {
				var mt []string
				if m != "[]" {
					mt = strings.Split(m, ";")
				}
				seen := 0
				cut := len(mt)
				if failAt == 0 {
					cut = 0 // the constructor fails
				}
				for j, t := range mt {
					if failAt > 0 && strings.HasSuffix(t, ":"+strconv.Itoa(failIn)) {
						seen++
						if seen == failAt {
							cut = j
							break
						}
					}
				}
				want = "[]"
				if cut > 0 {
					want = strings.Join(mt[:cut], ";")
				}
			}
			res.Cmp(idx, "pq.run (elements emitted before the read error)", want, impl, csFull)
			return nil
		}
		if runErr != nil {
			res.Violate(idx, "C16", sigPrefix+"error-without-fault"+sigSuffix, "the queue reported "+runErr.Error()+" although no input failed", csFull)
		}
		// oracle: non-descending, every element exactly once with its input's identity, per-input order kept
		okPerm := terminated
		for i, in := range inputs {
			if len(in) != len(perInput[i]) {
				okPerm = false
				continue
			}
			for j := range in {
				if string(in[j][0]) != perInput[i][j].k || string(in[j][1]) != perInput[i][j].v {
					okPerm = false
				}
			}
		}
		if !okSorted {
			res.Violate(idx, "C16", sigPrefix+"order"+sigSuffix, "output not in non-descending key order: "+impl, csFull)
		}
		if !okPerm {
			d := "output is not every element of every input exactly once: " + impl
			if !terminated && runErr == nil {
				d = fmt.Sprintf("no Done after %d calls for %d elements; ", total+8, total) + d
			}
			res.Violate(idx, "C16", sigPrefix+"elements"+sigSuffix, d, csFull)
		}
		line := "pq.run " + ord.drvOpt() + "inputs=" + strings.Join(tok, "|")
		if k == 0 {
			line = "pq.run " + ord.drvOpt() + "k=0 inputs="
		}
		m, err := drv.Ask(line)
		if err != nil {
			return err
		}
		res.Cmp(idx, "pq.run", m, impl, csFull)
	}
	return nil
}
