package main

import (
	"bufio"
	"bytes"
	"errors"
	"fmt"
	"os"
	"path/filepath"
	"regexp"
	"runtime"
	"runtime/debug"
	"runtime/pprof"
	"sort"
	"strconv"
	"strings"
	"time"

	"github.com/thomasjungblut/go-sstables/recordio"
	rProto "github.com/thomasjungblut/go-sstables/recordio/proto"
	"github.com/thomasjungblut/go-sstables/simpledb"
	"github.com/thomasjungblut/go-sstables/skiplist"
	"github.com/thomasjungblut/go-sstables/sstables"
	"github.com/thomasjungblut/go-sstables/wal"
	"google.golang.org/protobuf/proto"
)

// ---------------------------------------------------------------------------------------------
// stream "handles" (C19): descriptors (/proc/self/fd), mappings (/proc/self/maps) and library goroutines
// (goroutine profile) of this process under a session directory, after every step of
//   - SimpleDB sessions with hook-placed rotations / flush waits / compaction cycles (compared with the Lean
//     handle model step by step), compaction goroutine off, idle (1 h interval) or really ticking (few ms),
//   - stand-alone table readers with scans (complete, abandoned, range) and Close,
//   - recordio readers / writers and the WAL appender / replayer, incl. writers that were rewound with Seek and are
//     closed below their high-water mark (buffered and direct I/O) and table writers closed after a rolled-back
//     WriteNext (index write fault through the hook),
//   - a soak session with many flush + compaction + reopen cycles.
//
// Measured on the unchanged tree: at every quiescent point (client call returned, flusher idle, no compaction
// cycle running) the handles under the directory are exactly one WAL descriptor plus one data.rio mapping per
// live table, i.e. #live + 1.  That constant (1) is what the bound oracle uses at quiescent points.  While a
// compaction cycle and a flush are in progress the code additionally holds, per selected table, its own
// reader mapping and scanner descriptor, and up to 3 + 1 writer descriptors each for the compaction and the
// flush plus the table the flusher has opened and not yet published: the non-quiescent samples of the
// ticking sessions are therefore only checked against 3*(#live+1) + 10.
//
// The garbage collector is switched off while a case runs (os.File and mmap.ReaderAt have finalizers that
// would release a leaked handle at a random later time and hide the leak); it runs between cases.

const hQuiescentConst = 1 // measured: the WAL file

var hWalRe = regexp.MustCompile(`^fd:wal/[0-9]{6}\.wal$`)

// hObserve lists the descriptors and mappings of this process below dir as "fd:<rel>" / "map:<rel>", sorted.
func hObserve(dir string) ([]string, error) {
	var out []string
	ents, err := os.ReadDir("/proc/self/fd")
	if err != nil {
		return nil, err
	}
	for _, e := range ents {
		t, err := os.Readlink("/proc/self/fd/" + e.Name())
		if err != nil {
			continue // the descriptor of the directory listing itself is gone by now
		}
		if strings.HasPrefix(t, dir+"/") {
			out = append(out, "fd:"+strings.ReplaceAll(strings.TrimPrefix(t, dir+"/"), " ", "_"))
		}
	}
	f, err := os.Open("/proc/self/maps")
	if err != nil {
		return nil, err
	}
	defer f.Close()
	sc := bufio.NewScanner(f)
	sc.Buffer(make([]byte, 1<<20), 1<<24)
	for sc.Scan() {
		fs := strings.Fields(sc.Text())
		if len(fs) >= 6 {
			p := strings.Join(fs[5:], " ")
			if strings.HasPrefix(p, dir+"/") {
				out = append(out, "map:"+strings.ReplaceAll(strings.TrimPrefix(p, dir+"/"), " ", "_"))
			}
		}
	}
	if err := sc.Err(); err != nil {
		return nil, err
	}
	sort.Strings(out)
	return out, nil
}

// goroutines of the two loops that an EARLIER case left behind (a leak is reported where it happens, not again
// in every later case)
var hBaseFlusher, hBaseTicker int

// hGoroutines counts the live goroutines of the library's two background loops (whole process) that the
// current case started.
func hGoroutines() (flusher, ticker int) {
	f, t := hGoroutinesAbs()
	f -= hBaseFlusher
	t -= hBaseTicker
	if f < 0 {
		f = 0
	}
	if t < 0 {
		t = 0
	}
	return f, t
}

func hGoroutinesAbs() (flusher, ticker int) {
	for try := 0; ; try++ {
		var buf bytes.Buffer
		_ = pprof.Lookup("goroutine").WriteTo(&buf, 2)
		flusher, ticker = 0, 0
		unstarted := false
		for _, blk := range strings.Split(buf.String(), "\n\n") {
			if strings.Contains(blk, "simpledb.flushMemstoreContinuously") {
				flusher++
			}
			if strings.Contains(blk, "simpledb.backgroundCompaction") {
				ticker++
			}
			// a goroutine that `go f(db)` in Open has created and that has not run yet shows only the compiler's
			// wrapper frame: let it start, then look again
			if strings.Contains(blk, "simpledb.(*DB).Open.gowrap") {
				unstarted = true
			}
		}
		if !unstarted || try > 1000 {
			return
		}
		time.Sleep(50 * time.Microsecond)
	}
}

// hCanon: the canonical text the Lean driver prints for a handle multiset
func hCanon(items []string, flusher, ticker int) string {
	all := append([]string{}, items...)
	for i := 0; i < flusher; i++ {
		all = append(all, "go:flusher")
	}
	for i := 0; i < ticker; i++ {
		all = append(all, "go:ticker")
	}
	if len(all) == 0 {
		return "none"
	}
	sort.Strings(all)
	return strings.Join(all, ";")
}

// hWaitNoGoroutines polls until both loops have ended (Close joins them, the goroutines may need a moment to
// leave their deferred send).
func hWaitNoGoroutines() (int, int) {
	var f, t int
	for i := 0; i < 200; i++ {
		f, t = hGoroutines()
		if f == 0 && t == 0 {
			return 0, 0
		}
		time.Sleep(time.Millisecond)
	}
	return f, t
}

func runHandles(res *Result, drv *Driver, seed uint64, n int, tier string, only int) error {
	res.Rule = "cases: SimpleDB sessions (compactions off / idle ticker: handle set compared with the Lean model after every sampled step; " +
		"real ticker: bound + release only), table-reader programs (Scan complete/abandoned, ScanStartingAt/ScanRange, Close, scan after Close), " +
		"recordio reader/writer + WAL appender/replayer open-close cases, soak sessions; oracle at every quiescent sample: #fd+#map under the " +
		"directory <= #live tables + 1, after Close: none, no library goroutine, directory removable and re-openable; " +
		"non-trivial = a session with at least one flush and one merging compaction, a reader case with >= 2 scanners, or a recordio/WAL case; distinct = distinct step strings / parameters"
	old := debug.SetGCPercent(-1)
	defer debug.SetGCPercent(old)
	for idx := 0; idx < n; idx++ {
		if only >= 0 && idx != only {
			continue
		}
		r := NewRng(seed, uint64(idx))
		hBaseFlusher, hBaseTicker = hGoroutinesAbs()
		if hBaseFlusher+hBaseTicker > 0 {
			res.Stat("goroutines-inherited-from-earlier-case")
		}
		var err error
		switch {
		case idx == 0:
			cycles := 60
			if tier == "thorough" {
				cycles = 1000
			}
			err = hSoak(res, drv, r, idx, cycles)
		case idx%8 == 3:
			err = hTicker(res, r, idx, tier)
		case idx%8 == 5:
			err = hReader(res, drv, r, idx)
		case idx%8 == 7:
			err = hRecordio(res, r, idx)
		default:
			err = hSession(res, drv, r, idx, tier)
		}
		if err != nil {
			return err
		}
		runtime.GC()
	}
	return nil
}

// ---------------------------------------------------------------------------------------------
// deterministic sessions

type hTrace struct {
	steps  []string // model steps
	implR  []string // result part of the model's answer format
	implH  []string // handle part ("?" = not sampled)
	human  []string
	sample int
}

func (t *hTrace) emit(step, result, handles string) {
	t.steps = append(t.steps, step)
	t.implR = append(t.implR, result)
	t.implH = append(t.implH, handles)
}

// compare asks the model for the whole program and compares results everywhere, handle sets where sampled
func (t *hTrace) compare(res *Result, drv *Driver, idx int, what string) error {
	m, err := drv.Ask("handles.run steps=" + strings.Join(t.steps, ","))
	if err != nil {
		return err
	}
	mt := strings.Split(m, " ")
	var ms, is []string
	for i := range t.steps {
		is = append(is, t.implR[i]+"|"+t.implH[i])
		if i < len(mt) {
			tok := mt[i]
			if t.implH[i] == "?" {
				if k := strings.Index(tok, "|"); k >= 0 {
					tok = tok[:k] + "|?"
				}
			}
			ms = append(ms, tok)
		}
	}
	if len(mt) != len(t.steps) {
		ms = mt
	}
	res.Cmp(idx, what, strings.Join(ms, " "), strings.Join(is, " "), strings.Join(t.human, " "))
	return nil
}

type hDb struct {
	res     *Result
	idx     int
	dir     string
	db      *simpledb.DB
	opts    dbOpts
	mode    string // "off" (DisableCompactions), "idle" (ticker with a 1 h interval)
	async   bool
	direct  bool
	opened  bool
	tr      *hTrace
	ctx     string // last internal action, for violation signatures
	flushes int
	merges  int
}

func (h *hDb) extra() []simpledb.ExtraOption {
	o := []simpledb.ExtraOption{
		simpledb.MemstoreSizeBytes(h.opts.memstore),
		simpledb.CompactionFileThreshold(h.opts.threshold),
		simpledb.CompactionMaxSizeBytes(h.opts.maxSize),
		simpledb.CompactionRatio(float32(h.opts.ratioNum) / float32(h.opts.ratioDen)),
		simpledb.ReadBufferSizeBytes(h.opts.rbuf),
		simpledb.WriteBufferSizeBytes(h.opts.wbuf),
	}
	if h.mode == "off" {
		o = append(o, simpledb.DisableCompactions())
	} else {
		o = append(o, simpledb.CompactionRunInterval(time.Hour))
	}
	if h.async {
		o = append(o, simpledb.EnableAsyncWAL())
	}
	if h.direct {
		o = append(o, simpledb.EnableDirectIOWAL())
	}
	return o
}

func (h *hDb) cs() string { return strings.Join(h.tr.human, " ") }

// sample: handles under the directory now, checked against the bound; returns the canonical text
func (h *hDb) sample(live int, closed bool) (string, error) {
	items, err := hObserve(h.dir)
	if err != nil {
		return "", err
	}
	var f, t int
	if closed {
		f, t = hWaitNoGoroutines()
	} else {
		f, t = hGoroutines()
	}
	h.tr.sample++
	h.res.Evaluations++
	if closed {
		if len(items) > 0 {
			h.res.Violate(h.idx, "C19", "handles-left-after-close:last-internal-"+h.ctx, fmt.Sprintf("after Close: %v", items), h.cs())
		}
		if f != 0 || t != 0 {
			h.res.Violate(h.idx, "C19", "goroutine-left-after-close", fmt.Sprintf("after Close: %d flusher, %d compaction goroutines", f, t), h.cs())
		}
	} else {
		if len(items) > live+hQuiescentConst {
			h.res.Violate(h.idx, "C19", "handles-exceed-bound:after-"+h.ctx,
				fmt.Sprintf("%d live tables, %d descriptors+mappings: %v", live, len(items), items), h.cs())
		}
		if f > 1 || t > 1 {
			h.res.Violate(h.idx, "C19", "goroutines-exceed-bound", fmt.Sprintf("%d flusher, %d compaction goroutines", f, t), h.cs())
		}
	}
	h.res.StatN("handles:max-at-sample", 0)
	if len(items) > h.res.Stats["handles:max-at-sample"] {
		h.res.Stats["handles:max-at-sample"] = len(items)
	}
	return hCanon(items, f, t), nil
}

func (h *hDb) open() error {
	d, err := simpledb.NewSimpleDB(h.dir, h.extra()...)
	if err != nil {
		return err
	}
	if err := safely(d.Open); err != nil {
		h.res.Violate(h.idx, "C19", "open-failed", err.Error(), h.cs())
		return nil
	}
	h.db = d
	h.opened = true
	tok := h.opts.modelTok()
	if h.mode == "idle" {
		tok = "opent" + strings.TrimPrefix(tok, "open")
	}
	h.tr.human = append(h.tr.human, fmt.Sprintf("open(%s,mem=%d,thr=%d,max=%d,ratio=%d/%d,async=%v,direct=%v)", h.mode, h.opts.memstore,
		h.opts.threshold, h.opts.maxSize, h.opts.ratioNum, h.opts.ratioDen, h.async, h.direct))
	h.ctx = "open"
	names, _, _, _ := d.VerifTables()
	s, err := h.sample(len(names), false)
	if err != nil {
		return err
	}
	h.tr.emit(tok, "-", s)
	return nil
}

// quiesce waits for the flusher, cross-checks the live tables and samples
func (h *hDb) quiesce() error {
	h.db.VerifWaitFlushIdle()
	h.tr.emit("flush", "-", "?")
	names, _, _, _ := h.db.VerifTables()
	g, err := gensOf(names)
	if err != nil {
		return err
	}
	s, err := h.sample(len(names), false)
	if err != nil {
		return err
	}
	h.tr.emit("tables", "t:"+g, s)
	return nil
}

func (h *hDb) put(k, v []byte) {
	err := h.db.PutBytes(k, v)
	out := dbRes(err)
	rot := "0"
	if err == nil && h.db.VerifMemstoreEstimate() == 0 {
		rot = "1"
		h.flushes++
		h.res.Stat("rotation:size-triggered")
		h.ctx = "flush"
	}
	h.tr.emit("pb:"+gb(k)+":"+gb(v)+":"+rot, out, "?")
	h.tr.human = append(h.tr.human, fmt.Sprintf("put(%x,%dB)=%s", k, len(v), out))
}

func (h *hDb) rotate() {
	err := h.db.VerifRotate()
	if err != nil {
		h.res.Violate(h.idx, "C19", "rotate-failed", err.Error(), h.cs())
	}
	h.tr.emit("rot", "-", "?")
	h.tr.human = append(h.tr.human, "rotate")
	h.flushes++
	h.ctx = "flush"
}

// compact runs one compaction cycle through the hook (flusher idle first: the model's selection needs the sizes)
func (h *hDb) compact() (bool, error) {
	h.db.VerifWaitFlushIdle()
	h.tr.emit("flush", "-", "?")
	names, sizes, _, _ := h.db.VerifTables()
	before, err := gensOf(names)
	if err != nil {
		return false, err
	}
	h.tr.emit("tables", "t:"+before, "?")
	var szs []string
	for _, s := range sizes {
		szs = append(szs, strconv.FormatUint(s, 10))
	}
	var sel []string
	err = safely(func() error {
		var e error
		sel, _, e = h.db.VerifCompactOnce()
		return e
	})
	if err != nil {
		h.res.Violate(h.idx, "C19", "compaction-failed", err.Error(), h.cs())
		return false, nil
	}
	g, err := gensOf(sel)
	if err != nil {
		return false, err
	}
	h.tr.emit("compact:"+strings.Join(szs, ";"), "sel:"+g, "?")
	h.tr.human = append(h.tr.human, fmt.Sprintf("compact[%s→sel %s]", before, g))
	if len(sel) > 0 {
		h.merges++
		h.res.Stat("op:compact:merged")
		h.res.Stat(fmt.Sprintf("op:compact:inputs=%d", minInt(len(sel), 6)))
	} else {
		h.res.Stat("op:compact:nothing-selected")
	}
	h.ctx = "compaction"
	return true, nil
}

func (h *hDb) close() (bool, error) {
	err := safely(h.db.Close)
	if err != nil {
		h.res.Violate(h.idx, "C19", "close-failed", err.Error(), h.cs())
		return false, nil
	}
	h.opened = false
	h.flushes++
	h.tr.human = append(h.tr.human, "close")
	s, err := h.sample(0, true)
	if err != nil {
		return false, err
	}
	h.tr.emit("close", "ok", s)
	// the WAL files a clean Close leaves on disk (the next Open's replayer opens every one of them): the model
	// keeps book of them as well
	files, _ := filepath.Glob(filepath.Join(h.dir, simpledb.WriteAheadFolder, "*.wal"))
	var nums []string
	sort.Strings(files)
	for _, f := range files {
		n, err := strconv.Atoi(strings.TrimSuffix(filepath.Base(f), ".wal"))
		if err != nil {
			return false, fmt.Errorf("unexpected WAL file name %q", f)
		}
		nums = append(nums, strconv.Itoa(n))
	}
	h.tr.emit("wals", "w:"+strings.Join(nums, ";"), "?")
	h.res.Stat(fmt.Sprintf("close:wal-files-left=%d", handlesMinInt(len(files), 6)))
	return true, nil
}

// finish: after the last Close the directory can be removed, re-created and opened again by this process
func (h *hDb) finish() error {
	h.res.Evaluations++
	if err := os.RemoveAll(h.dir); err != nil {
		h.res.Violate(h.idx, "C19", "directory-not-removable-after-close", err.Error(), h.cs())
		return nil
	}
	if err := os.MkdirAll(h.dir, 0o700); err != nil {
		return err
	}
	err := safely(func() error {
		d, err := simpledb.NewSimpleDB(h.dir, simpledb.DisableCompactions())
		if err != nil {
			return err
		}
		if err := d.Open(); err != nil {
			return err
		}
		if err := d.Put("k", "v"); err != nil {
			return err
		}
		if v, err := d.Get("k"); err != nil || v != "v" {
			return fmt.Errorf("Get after re-creation: %q %v", v, err)
		}
		return d.Close()
	})
	if err != nil {
		h.res.Violate(h.idx, "C19", "directory-not-reopenable-after-close", err.Error(), h.cs())
		return nil
	}
	items, err := hObserve(h.dir)
	if err != nil {
		return err
	}
	f, t := hWaitNoGoroutines()
	if len(items) > 0 || f+t > 0 {
		h.res.Violate(h.idx, "C19", "handles-left-after-close:fresh-directory", fmt.Sprintf("%v flusher=%d ticker=%d", items, f, t), h.cs())
	}
	return nil
}

func hTempDir(kind string) (string, error) {
	dir, err := os.MkdirTemp("", "verif-handles-"+kind+"-")
	if err != nil {
		return "", err
	}
	if real, err := filepath.EvalSymlinks(dir); err == nil {
		dir = real
	}
	return dir, nil
}

func hGenOpts(r *Rng) dbOpts {
	o := genDbOpts(r)
	// compaction friendly: most sessions must actually merge
	if r.Chance(70) {
		o.threshold = []int{0, 0, 1, 1, 2}[r.Intn(5)]
		o.maxSize = uint64([]int{1 << 30, 1 << 30, 5000, 1000}[r.Intn(4)])
	}
	return o
}

func hSession(res *Result, drv *Driver, r *Rng, idx int, tier string) error {
	dir, err := hTempDir("db")
	if err != nil {
		return err
	}
	defer os.RemoveAll(dir)
	res.Cases++
	h := &hDb{res: res, idx: idx, dir: dir, tr: &hTrace{}, opts: hGenOpts(r), mode: "off", ctx: "none"}
	if r.Chance(40) {
		h.mode = "idle"
	}
	h.async = r.Chance(25)
	if h.async && r.Chance(50) { // the direct I/O writer has no synchronous append: only with the async WAL
		if ok, _ := recordio.IsDirectIOAvailable(); ok {
			h.direct = true
		}
	}
	res.Stat("case:session:compactions-" + h.mode)
	if h.async {
		res.Stat("case:session:async-wal")
	}
	if h.direct {
		res.Stat("case:session:directio-wal")
	}
	if err := h.open(); err != nil || !h.opened {
		return err
	}
	nk := 3 + r.Intn(5)
	keys := make([][]byte, nk)
	for i := range keys {
		keys[i] = []byte{byte('a' + i)}
	}
	nops := 12 + r.Intn(30)
	if tier == "thorough" && r.Chance(20) {
		nops = 60 + r.Intn(120)
	}
	for op := 0; op < nops && h.opened; op++ {
		k := keys[r.Intn(len(keys))]
		sampleNow := r.Chance(88)
		switch c := r.Intn(100); {
		case c < 36:
			v := r.Bytes(1 + r.Intn(30))
			if r.Chance(10) {
				v = bytesRepeat(byte(r.Next()), 200+r.Intn(3000))
			}
			h.put(k, v)
			res.Stat("op:put")
		case c < 46:
			err := h.db.DeleteBytes(k)
			h.tr.emit("db:"+gb(k), dbRes(err), "?")
			h.tr.human = append(h.tr.human, fmt.Sprintf("del(%x)", k))
			res.Stat("op:delete")
		case c < 50:
			v, err := h.db.GetBytes(k)
			out := dbRes(err)
			if err == nil {
				out = "val:" + gb(nonNil(v))
			}
			h.tr.emit("g:"+gb(k), out, "?")
			res.Stat("op:get")
		case c < 66:
			h.rotate()
			res.Stat("op:rotate")
			if r.Chance(25) { // two rotations back to back: the second hand-off waits for the first flush
				h.rotate()
				res.Stat("op:rotate:back-to-back")
			}
		case c < 70:
			res.Stat("op:waitflush")
			sampleNow = true
		case c < 88:
			ok, err := h.compact()
			if err != nil {
				return err
			}
			if !ok {
				h.opened = false
			}
		default:
			ok, err := h.close()
			if err != nil {
				return err
			}
			if !ok {
				break
			}
			if r.Chance(30) { // a closed handle rejects calls and opens nothing
				_, gerr := h.db.Get(string(k))
				h.tr.emit("g:"+gb(k), dbRes(gerr), "?")
				perr := h.db.Put(string(k), "x")
				items, err := hObserve(h.dir)
				if err != nil {
					return err
				}
				f, t := hGoroutines()
				h.tr.emit("ps:"+gb(k)+":78:0", dbRes(perr), hCanon(items, f, t))
			}
			h.opts = hGenOpts(r)
			h.mode = "off"
			if r.Chance(40) {
				h.mode = "idle"
			}
			if err := h.open(); err != nil {
				return err
			}
			res.Stat("op:reopen")
			sampleNow = false
		}
		if h.opened && sampleNow {
			if err := h.quiesce(); err != nil {
				return err
			}
		}
	}
	if h.opened {
		if _, err := h.close(); err != nil {
			return err
		}
	}
	if !h.opened {
		if err := h.finish(); err != nil {
			return err
		}
	}
	cs := strings.Join(h.tr.steps, ",")
	if h.flushes > 0 && h.merges > 0 {
		res.NoteNontrivial(cs)
	}
	res.StatN("samples:session", h.tr.sample)
	res.Sample(h.cs())
	return h.tr.compare(res, drv, idx, "handles.run")
}

// hSoak: one long session of put / rotate / flush / compaction cycles with a reopen now and then; every cycle
// is sampled and compared with the model, the garbage collector runs every 20 cycles (after the sample).
func hSoak(res *Result, drv *Driver, r *Rng, idx int, cycles int) error {
	dir, err := hTempDir("soak")
	if err != nil {
		return err
	}
	defer os.RemoveAll(dir)
	res.Cases++
	res.Stat(fmt.Sprintf("case:soak:cycles=%d", cycles))
	o := dbOpts{memstore: 1 << 40, threshold: 2, maxSize: 1 << 30, ratioNum: 1, ratioDen: 1, rbuf: 4096, wbuf: 4096}
	h := &hDb{res: res, idx: idx, dir: dir, tr: &hTrace{}, opts: o, mode: "idle", ctx: "none"}
	if err := h.open(); err != nil || !h.opened {
		return err
	}
	maxLive := 0
	for c := 0; c < cycles && h.opened; c++ {
		for i := 0; i <= r.Intn(3); i++ {
			h.put([]byte{byte('a' + r.Intn(6))}, r.Bytes(1+r.Intn(12)))
		}
		if r.Chance(20) {
			k := []byte{byte('a' + r.Intn(6))}
			err := h.db.DeleteBytes(k)
			h.tr.emit("db:"+gb(k), dbRes(err), "?")
		}
		h.rotate()
		if r.Chance(60) {
			ok, err := h.compact()
			if err != nil {
				return err
			}
			if !ok {
				break
			}
		}
		if err := h.quiesce(); err != nil {
			return err
		}
		names, _, _, _ := h.db.VerifTables()
		if len(names) > maxLive {
			maxLive = len(names)
		}
		if c%100 == 99 {
			ok, err := h.close()
			if err != nil {
				return err
			}
			if !ok {
				break
			}
			if err := h.open(); err != nil {
				return err
			}
			res.Stat("op:reopen")
		}
		if c%20 == 19 {
			runtime.GC()
		}
	}
	if h.opened {
		if _, err := h.close(); err != nil {
			return err
		}
	}
	if !h.opened {
		if err := h.finish(); err != nil {
			return err
		}
	}
	res.StatN("samples:soak", h.tr.sample)
	res.StatN("soak:flushes", h.flushes)
	res.StatN("soak:merging-compactions", h.merges)
	res.Stats["soak:max-live-tables"] = maxLive
	if h.flushes > 0 && h.merges > 0 {
		res.NoteNontrivial(strings.Join(h.tr.steps, ","))
	}
	// the human readable trace of a soak is too long to be useful: keep the head
	if len(h.tr.human) > 60 {
		h.tr.human = append(h.tr.human[:60], "…")
	}
	return h.tr.compare(res, drv, idx, "handles.run(soak)")
}

// ---------------------------------------------------------------------------------------------
// sessions with the real compaction ticker: only the bound and the release are checked

func hTicker(res *Result, r *Rng, idx int, tier string) error {
	dir, err := hTempDir("tick")
	if err != nil {
		return err
	}
	defer os.RemoveAll(dir)
	res.Cases++
	threshold := []int{0, 1, 1, 2}[r.Intn(4)]
	interval := time.Duration(1+r.Intn(4)) * time.Millisecond
	mem := uint64(1 << 40)
	if r.Chance(50) {
		mem = uint64([]int{40, 120, 400}[r.Intn(3)])
	}
	res.Stat(fmt.Sprintf("case:ticker:threshold=%d", threshold))
	var human []string
	human = append(human, fmt.Sprintf("open(ticker=%v,thr=%d,mem=%d)", interval, threshold, mem))
	cs := func() string { return strings.Join(human, " ") }
	d, err := simpledb.NewSimpleDB(dir, simpledb.CompactionRunInterval(interval), simpledb.CompactionFileThreshold(threshold),
		simpledb.CompactionMaxSizeBytes(1<<30), simpledb.MemstoreSizeBytes(mem), simpledb.ReadBufferSizeBytes(4096), simpledb.WriteBufferSizeBytes(4096))
	if err != nil {
		return err
	}
	if err := safely(d.Open); err != nil {
		res.Violate(idx, "C19", "open-failed", err.Error(), cs())
		return nil
	}
	nops := 40 + r.Intn(60)
	if tier == "thorough" {
		nops *= 3
	}
	maxSeen, samples := 0, 0
	weak := func() error {
		n1, _, _, _ := d.VerifTables()
		items, err := hObserve(dir)
		if err != nil {
			return err
		}
		n2, _, _, _ := d.VerifTables()
		live := len(n1)
		if len(n2) > live {
			live = len(n2)
		}
		samples++
		res.Evaluations++
		if len(items) > maxSeen {
			maxSeen = len(items)
		}
		if len(items) > 3*(live+1)+10 {
			res.Violate(idx, "C19", "handles-exceed-transient-bound:ticker", fmt.Sprintf("<=%d live tables, %d descriptors+mappings: %v", live, len(items), items), cs())
		}
		f, t := hGoroutines()
		if f > 1 || t > 1 {
			res.Violate(idx, "C19", "goroutines-exceed-bound", fmt.Sprintf("%d flusher, %d compaction goroutines", f, t), cs())
		}
		return nil
	}
	for op := 0; op < nops; op++ {
		switch c := r.Intn(100); {
		case c < 50:
			k := []byte{byte('a' + r.Intn(8))}
			v := r.Bytes(1 + r.Intn(40))
			if err := d.PutBytes(k, v); err != nil {
				res.Violate(idx, "C19", "put-failed", err.Error(), cs())
			}
			human = append(human, fmt.Sprintf("put(%x,%dB)", k, len(v)))
		case c < 58:
			_ = d.DeleteBytes([]byte{byte('a' + r.Intn(8))})
			human = append(human, "del")
		case c < 78:
			if err := d.VerifRotate(); err != nil {
				res.Violate(idx, "C19", "rotate-failed", err.Error(), cs())
			}
			human = append(human, "rotate")
		default:
			ms := r.Intn(4)
			time.Sleep(time.Duration(ms) * time.Millisecond)
			human = append(human, fmt.Sprintf("sleep(%dms)", ms))
		}
		if err := weak(); err != nil {
			return err
		}
	}
	// with a positive threshold the compaction comes to rest once at most `threshold` tables are left:
	// then the strict bound applies
	if threshold >= 1 {
		d.VerifWaitFlushIdle()
		rest := false
		for i := 0; i < 2000; i++ {
			names, _, _, _ := d.VerifTables()
			cdirs, _ := filepath.Glob(filepath.Join(dir, simpledb.SSTableCompactionPathPrefix+"*"))
			if len(names) <= threshold && len(cdirs) == 0 {
				rest = true
				break
			}
			time.Sleep(time.Millisecond)
		}
		if rest {
			time.Sleep(3 * interval)
			names, _, _, _ := d.VerifTables()
			items, err := hObserve(dir)
			if err != nil {
				return err
			}
			res.Evaluations++
			res.Stat("ticker:came-to-rest")
			human = append(human, fmt.Sprintf("rest(%d tables)", len(names)))
			if len(items) > len(names)+hQuiescentConst {
				res.Violate(idx, "C19", "handles-exceed-bound:after-ticker-compactions", fmt.Sprintf("%d live tables, %d descriptors+mappings: %v", len(names), len(items), items), cs())
			}
		} else {
			res.Stat("ticker:never-came-to-rest")
		}
	}
	human = append(human, "close")
	if err := safely(d.Close); err != nil {
		res.Violate(idx, "C19", "close-failed", err.Error(), cs())
		return nil
	}
	items, err := hObserve(dir)
	if err != nil {
		return err
	}
	f, t := hWaitNoGoroutines()
	res.Evaluations++
	if len(items) > 0 {
		res.Violate(idx, "C19", "handles-left-after-close:ticker", fmt.Sprintf("after Close: %v", items), cs())
	}
	if f != 0 || t != 0 {
		res.Violate(idx, "C19", "goroutine-left-after-close", fmt.Sprintf("after Close: %d flusher, %d compaction goroutines", f, t), cs())
	}
	h := &hDb{res: res, idx: idx, dir: dir, tr: &hTrace{human: human}}
	if err := h.finish(); err != nil {
		return err
	}
	res.StatN("samples:ticker", samples)
	if maxSeen > res.Stats["ticker:max-handles-at-sample"] {
		res.Stats["ticker:max-handles-at-sample"] = maxSeen
	}
	res.Sample(cs())
	return nil
}

// ---------------------------------------------------------------------------------------------
// stand-alone table reader

func hWriteTable(path string, nkeys int, r *Rng) ([][]byte, error) {
	if err := os.MkdirAll(path, 0o700); err != nil {
		return nil, err
	}
	w, err := sstables.NewSSTableStreamWriter(sstables.WriteBasePath(path), sstables.WithKeyComparator(skiplist.BytesComparator{}),
		sstables.WriteBufferSizeBytes(4096))
	if err != nil {
		return nil, err
	}
	if err := w.Open(); err != nil {
		return nil, err
	}
	var keys [][]byte
	for i := 0; i < nkeys; i++ {
		k := []byte(fmt.Sprintf("key-%06d", i))
		keys = append(keys, k)
		if err := w.WriteNext(k, r.Bytes(1+r.Intn(50))); err != nil {
			return nil, err
		}
	}
	return keys, w.Close()
}

func hReader(res *Result, drv *Driver, r *Rng, idx int) error {
	dir, err := hTempDir("reader")
	if err != nil {
		return err
	}
	defer os.RemoveAll(dir)
	res.Cases++
	gen := 1 + r.Intn(999)
	path := filepath.Join(dir, fmt.Sprintf(simpledb.SSTablePattern, gen))
	nkeys := []int{0, 1, 2, 10, 100, 400}[r.Intn(6)]
	keys, err := hWriteTable(path, nkeys, r)
	if err != nil {
		return err
	}
	var human []string
	cs := func() string { return fmt.Sprintf("table(gen=%d,keys=%d) ", gen, nkeys) + strings.Join(human, " ") }
	if items, err := hObserve(dir); err != nil {
		return err
	} else if len(items) > 0 {
		res.Violate(idx, "C19", "table-writer-close-leaves-handle", fmt.Sprint(items), cs())
	}
	loader := []string{"slice", "slice", "skiplist", "map", "disk"}[r.Intn(5)]
	res.Stat("case:reader:loader-" + loader)
	ropts := []sstables.ReadOption{sstables.ReadBasePath(path), sstables.ReadBufferSizeBytes(4096)}
	switch loader {
	case "skiplist":
		ropts = append(ropts, sstables.ReadIndexLoader(&sstables.SkipListIndexLoader{KeyComparator: skiplist.BytesComparator{}, ReadBufferSize: 4096}))
	case "map":
		ropts = append(ropts, sstables.ReadIndexLoader(&sstables.MapKeyIndexLoader[[20]byte]{ReadBufferSize: 4096, Mapper: &sstables.Byte20KeyMapper{}}))
	case "disk":
		ropts = append(ropts, sstables.ReadIndexLoader(&sstables.DiskIndexLoader{}))
	}
	var steps, impl []string
	sample := func(step string) (int, error) {
		items, err := hObserve(dir)
		if err != nil {
			return 0, err
		}
		steps = append(steps, step)
		impl = append(impl, hCanon(items, 0, 0))
		res.Evaluations++
		return len(items), nil
	}
	var rd sstables.SSTableReaderI
	if err := safely(func() error { var e error; rd, e = sstables.NewSSTableReader(ropts...); return e }); err != nil {
		res.Violate(idx, "C19", "reader-open-failed", err.Error(), cs())
		return nil
	}
	human = append(human, "new("+loader+")")
	if _, err := sample("new"); err != nil {
		return err
	}
	var scanners []sstables.SSTableIteratorI
	nsteps := 3 + r.Intn(25)
	nscans := 0
	drain := func(it sstables.SSTableIteratorI, limit int) {
		for i := 0; limit < 0 || i < limit; i++ {
			if _, _, err := it.Next(); err != nil {
				return
			}
		}
	}
	doStep := func() error {
		switch c := r.Intn(100); {
		case c < 40:
			it, err := rd.Scan()
			if err != nil {
				res.Violate(idx, "C19", "scan-failed", err.Error(), cs())
				return nil
			}
			scanners = append(scanners, it)
			nscans++
			human = append(human, "scan")
			_, err = sample("scan")
			return err
		case c < 55:
			var it sstables.SSTableIteratorI
			var err error
			if len(keys) > 0 && r.Chance(50) {
				it, err = rd.ScanStartingAt(keys[r.Intn(len(keys))])
				human = append(human, "scanStartingAt")
			} else {
				it, err = rd.ScanRange([]byte("key-000001"), []byte("key-000050"))
				human = append(human, "scanRange")
			}
			if err == nil {
				drain(it, r.Intn(20)-1)
			}
			_, err = sample("scanat")
			return err
		case c < 78:
			if len(scanners) == 0 {
				return nil
			}
			drain(scanners[r.Intn(len(scanners))], -1)
			human = append(human, "finishScan")
			res.Stat("reader:scan-complete")
			_, err := sample("finish")
			return err
		default:
			if len(scanners) == 0 {
				return nil
			}
			i := r.Intn(len(scanners))
			drain(scanners[i], r.Intn(5))
			scanners = append(scanners[:i], scanners[i+1:]...)
			human = append(human, "abandonScan")
			res.Stat("reader:scan-abandoned")
			_, err := sample("abandon")
			return err
		}
	}
	for i := 0; i < nsteps; i++ {
		if err := doStep(); err != nil {
			return err
		}
	}
	if err := safely(rd.Close); err != nil {
		res.Violate(idx, "C19", "reader-close-failed", err.Error(), cs())
	}
	human = append(human, "close")
	left, err := sample("close")
	if err != nil {
		return err
	}
	if left > 0 {
		res.Violate(idx, "C19", fmt.Sprintf("reader-close-leaves-handle:loader-%s", loader), impl[len(impl)-1], cs())
	}
	res.Stat(fmt.Sprintf("reader:scanners=%d", minInt(nscans, 8)))
	// documented quirk, outside the property: Scan() does not notice that the reader is closed; the descriptor
	// it opens is only released by another Close
	if r.Chance(30) {
		res.Stat("reader:scan-after-close")
		if _, err := rd.Scan(); err == nil {
			human = append(human, "scan(after close)")
			if _, err := sample("scan"); err != nil {
				return err
			}
			_ = safely(rd.Close) // returns "file already closed" for the older scanners
			human = append(human, "close(again)")
			left, err := sample("close")
			if err != nil {
				return err
			}
			if left > 0 {
				res.Violate(idx, "C19", "reader-close-leaves-handle:second-close", impl[len(impl)-1], cs())
			}
		}
	}
	if nscans >= 2 {
		res.NoteNontrivial(loader + ":" + strings.Join(steps, ","))
	}
	res.Sample(cs())
	if loader == "disk" {
		// the disk index keeps a second mapping (index.rio) that the in-memory loaders of the model do not have:
		// only the release oracle above applies
		return nil
	}
	m, err := drv.Ask(fmt.Sprintf("handles.reader gen=%d steps=%s", gen, strings.Join(steps, ",")))
	if err != nil {
		return err
	}
	res.Cmp(idx, "handles.reader", m, strings.Join(impl, " "), cs())
	return nil
}

// ---------------------------------------------------------------------------------------------
// recordio readers / writers, WAL appender / replayer: open ... close leaves nothing

func hRecordio(res *Result, r *Rng, idx int) error {
	dir, err := hTempDir("rio")
	if err != nil {
		return err
	}
	defer os.RemoveAll(dir)
	res.Cases++
	var human []string
	cs := func() string { return strings.Join(human, " ") }
	reported := map[string]bool{} // a handle that was reported as left behind is not reported again for a later object
	expect := func(what string, want int) error {
		all, err := hObserve(dir)
		if err != nil {
			return err
		}
		var items []string
		for _, it := range all {
			if !reported[it] {
				items = append(items, it)
			}
		}
		if want == 0 {
			for _, it := range items {
				reported[it] = true
			}
		}
		res.Evaluations++
		human = append(human, fmt.Sprintf("%s→%d", what, len(items)))
		if want == 0 && len(items) != 0 {
			res.Violate(idx, "C19", "recordio-close-leaves-handle:"+strings.SplitN(what, ":", 2)[0], fmt.Sprint(items), cs())
		} else if want > 0 && len(items) > want {
			res.Violate(idx, "C19", "recordio-more-handles-than-objects:"+strings.SplitN(what, ":", 2)[0], fmt.Sprint(items), cs())
		}
		return nil
	}
	comp := []int{recordio.CompressionTypeNone, recordio.CompressionTypeSnappy, recordio.CompressionTypeGZIP}[r.Intn(3)]
	nrec := r.Intn(40)
	path := filepath.Join(dir, "file.rio")
	wopts := []recordio.FileWriterOption{recordio.Path(path), recordio.CompressionType(comp), recordio.BufferSizeBytes(4096)}
	direct := false
	if r.Chance(25) {
		if ok, _ := recordio.IsDirectIOAvailable(); ok {
			direct = true
			wopts = append(wopts, recordio.DirectIO())
			res.Stat("case:recordio:directio-writer")
		}
	}
	_ = direct
	err = safely(func() error {
		w, err := recordio.NewFileWriter(wopts...)
		if err != nil {
			return err
		}
		if err := w.Open(); err != nil {
			return err
		}
		for i := 0; i < nrec; i++ {
			if _, err := w.Write(r.Bytes(r.Intn(100))); err != nil {
				return err
			}
		}
		if err := expect("writer:open", 1); err != nil {
			return err
		}
		if err := w.Close(); err != nil {
			return err
		}
		return expect("writer:closed", 0)
	})
	if err != nil {
		return fmt.Errorf("recordio writer: %w", err)
	}
	res.Stat("case:recordio:writer")
	// rewound writers and rolled-back table writers (own generator state: the cases around stay as they were)
	r2 := &Rng{s: r.s ^ 0x7265776f756e6421}
	r2.Next()
	if err := hRewoundWriters(res, r2, dir, expect); err != nil {
		return err
	}
	if err := hRolledBackTableWriter(res, r2, dir, expect); err != nil {
		return err
	}
	// sequential reader: some records, or all, or none; constructed-but-never-opened readers too
	err = safely(func() error {
		rd, err := recordio.NewFileReader(recordio.ReaderPath(path), recordio.ReaderBufferSizeBytes(4096))
		if err != nil {
			return err
		}
		mode := r.Intn(3)
		if mode > 0 {
			if err := rd.Open(); err != nil {
				return err
			}
			k := nrec
			if mode == 1 {
				k = r.Intn(nrec + 1)
			}
			for i := 0; i < k; i++ {
				if _, err := rd.ReadNext(); err != nil {
					break
				}
			}
		}
		res.Stat(fmt.Sprintf("case:recordio:file-reader:%s", []string{"never-opened", "partly-read", "read-to-eof"}[mode]))
		if err := expect("file-reader:open", 1); err != nil {
			return err
		}
		if err := rd.Close(); err != nil {
			return err
		}
		return expect("file-reader:closed", 0)
	})
	if err != nil {
		return fmt.Errorf("recordio file reader: %w", err)
	}
	err = safely(func() error {
		rd, err := recordio.NewMemoryMappedReaderWithPath(path)
		if err != nil {
			return err
		}
		if r.Chance(80) {
			if err := rd.Open(); err != nil {
				return err
			}
			off := uint64(recordio.FileHeaderSizeBytes)
			for i := 0; i < r.Intn(nrec+1); i++ {
				o, _, err := rd.SeekNext(off)
				if err != nil {
					break
				}
				off = o + 1
			}
		}
		if err := expect("mmap-reader:open", 1); err != nil {
			return err
		}
		if err := rd.Close(); err != nil {
			return err
		}
		return expect("mmap-reader:closed", 0)
	})
	if err != nil {
		return fmt.Errorf("recordio mmap reader: %w", err)
	}
	res.Stat("case:recordio:mmap-reader")
	// WAL: appender with rotations (one descriptor at any time), then the replayer
	walDir := filepath.Join(dir, "wal")
	if err := os.MkdirAll(walDir, 0o700); err != nil {
		return err
	}
	maxSize := uint64([]int{64, 200, 1000, 1 << 20}[r.Intn(4)])
	wo, err := wal.NewWriteAheadLogOptions(wal.BasePath(walDir), wal.MaximumWalFileSizeBytes(maxSize))
	if err != nil {
		return err
	}
	nwal := r.Intn(60)
	err = safely(func() error {
		w, err := wal.NewWriteAheadLog(wo)
		if err != nil {
			return err
		}
		for i := 0; i < nwal; i++ {
			if r.Chance(50) {
				err = w.Append(r.Bytes(1 + r.Intn(60)))
			} else {
				err = w.AppendSync(r.Bytes(1 + r.Intn(60)))
			}
			if err != nil {
				return err
			}
			if r.Chance(10) {
				if _, err := w.Rotate(); err != nil {
					return err
				}
			}
			if i%7 == 0 {
				if err := expect("wal-appender:open", 1); err != nil {
					return err
				}
			}
		}
		if err := w.Close(); err != nil {
			return err
		}
		return expect("wal-appender:closed", 0)
	})
	if err != nil {
		return fmt.Errorf("wal appender: %w", err)
	}
	files, _ := filepath.Glob(filepath.Join(walDir, "*.wal"))
	res.Stat(fmt.Sprintf("case:wal:files=%d", minInt(len(files), 10)))
	err = safely(func() error {
		rp, err := wal.NewReplayer(wo)
		if err != nil {
			return err
		}
		peak, count := 0, 0
		stop := -1
		if r.Chance(25) && nwal > 0 {
			stop = r.Intn(nwal) // the callback fails in the middle: the readers must still be closed
			res.Stat("case:wal:replay-aborted-by-callback")
		}
		rerr := rp.Replay(func(rec []byte) error {
			if count == stop {
				return errors.New("stop here")
			}
			count++
			if count%5 == 0 {
				if items, err := hObserve(dir); err == nil && len(items) > peak {
					peak = len(items)
				}
			}
			return nil
		})
		if stop < 0 && rerr != nil {
			return rerr
		}
		// observation, not an oracle: the replayer keeps every file it has read open until Replay returns
		if peak > res.Stats["wal:replay-peak-descriptors"] {
			res.Stats["wal:replay-peak-descriptors"] = peak
		}
		return expect("wal-replayer:returned", 0)
	})
	if err != nil {
		return fmt.Errorf("wal replayer: %w", err)
	}
	res.NoteNontrivial(fmt.Sprintf("rio:%d:%d:%d:%d", comp, nrec, nwal, maxSize))
	res.Sample(cs())
	return nil
}

// hRewoundWriters: writer lifecycles Open, Write*, (Seek back to the offset of an earlier record, Write*){1..3},
// Close - for the buffered writer with nothing, less or more written after the last rewind, for the direct-I/O
// writer (which cannot write at an unaligned offset again) with nothing written after it.  Whatever Close has to
// do about the bytes beyond the current offset, it has to release the descriptor.
func hRewoundWriters(res *Result, r *Rng, dir string, expect func(string, int) error) error {
	flavours := []string{"buffered"}
	if ok, _ := recordio.IsDirectIOAvailable(); ok {
		flavours = append(flavours, "directio")
	} else {
		res.Stat("case:recordio:rewound-writer:directio-unavailable")
	}
	for _, fl := range flavours {
		path := filepath.Join(dir, fmt.Sprintf("rewound-%s.rio", fl))
		comp := []int{recordio.CompressionTypeNone, recordio.CompressionTypeSnappy, recordio.CompressionTypeGZIP}[r.Intn(3)]
		buf := []int{16, 64, 512, 4096, 65536}[r.Intn(5)]
		maxRec := 300
		if fl == "directio" {
			buf, maxRec = 4096, 2000
		}
		wopts := []recordio.FileWriterOption{recordio.Path(path), recordio.CompressionType(comp), recordio.BufferSizeBytes(buf)}
		if fl == "directio" {
			wopts = append(wopts, recordio.DirectIO())
		}
		nrec := 1 + r.Intn(20)
		seeks := 1 + r.Intn(3)
		after := r.Intn(3) // after the last rewind: 0 nothing, 1 something short, 2 anything
		if fl == "directio" {
			seeks, after = 1, 0
		}
		what := fmt.Sprintf("rewound-%s-writer:comp=%d,buf=%d,recs=%d,seeks=%d,after=%d", fl, comp, buf, nrec, seeks, after)
		err := safely(func() error {
			w, err := recordio.NewFileWriter(wopts...)
			if err != nil {
				return err
			}
			if err := w.Open(); err != nil {
				return err
			}
			var offs []uint64 // offsets of the records that survive
			write := func(p []byte) error {
				off, err := w.Write(p)
				if err == nil {
					offs = append(offs, off)
				}
				return err
			}
			genRec := func(max int) []byte {
				if r.Chance(8) {
					return nil
				}
				return r.Bytes(r.Intn(max + 1))
			}
			for i := 0; i < nrec; i++ {
				if err := write(genRec(maxRec)); err != nil {
					return err
				}
			}
			highWater := w.Size()
			for k := 0; k < seeks; k++ {
				i := r.Intn(len(offs))
				if err := w.Seek(offs[i]); err != nil {
					return fmt.Errorf("seek to the record boundary %d: %w", offs[i], err)
				}
				offs = offs[:i]
				n := 0
				switch {
				case k < seeks-1:
					n = r.Intn(3)
				case after == 1:
					n = 1
				case after == 2:
					n = r.Intn(6)
				}
				for j := 0; j < n || len(offs) == 0 && k < seeks-1; j++ { // a later rewind needs a record to go back to
					max := maxRec
					if k == seeks-1 && after == 1 {
						max = 4
					}
					if err := write(genRec(max)); err != nil {
						return err
					}
				}
				if w.Size() > highWater {
					highWater = w.Size()
				}
			}
			if w.Size() < highWater {
				res.Stat("case:recordio:rewound-writer:" + fl + ":closed-below-high-water-mark")
			} else {
				res.Stat("case:recordio:rewound-writer:" + fl + ":closed-at-high-water-mark")
			}
			res.Stat(fmt.Sprintf("case:recordio:rewound-writer:seeks=%d", seeks))
			if err := expect(what+":open", 1); err != nil {
				return err
			}
			if err := w.Close(); err != nil {
				return err
			}
			return expect(what+":closed", 0)
		})
		if err != nil {
			return fmt.Errorf("recordio rewound writer (%s): %w", what, err)
		}
	}
	return nil
}

type hFailingIndexWriter struct {
	rProto.WriterI
	failAt map[int]bool
	calls  int
}

func (w *hFailingIndexWriter) Write(m proto.Message) (uint64, error) {
	k := w.calls
	w.calls++
	if w.failAt[k] {
		return 0, errors.New("injected index write fault")
	}
	return w.WriterI.Write(m)
}

// hRolledBackTableWriter: a table writer whose index write fails for one or two keys (hook): WriteNext rolls the
// data file back with Seek; the writer is closed after that, with nothing, less or more written after the
// roll-back.  Close releases index, data and metadata descriptors.
func hRolledBackTableWriter(res *Result, r *Rng, dir string, expect func(string, int) error) error {
	path := filepath.Join(dir, "rolled-back-table")
	if err := os.MkdirAll(path, 0o700); err != nil {
		return err
	}
	nkeys := 1 + r.Intn(12)
	failAt := map[int]bool{r.Intn(nkeys): true}
	if r.Chance(50) {
		failAt[nkeys-1] = true // the last WriteNext is the one rolled back
	}
	var pos []string
	for i := 0; i < nkeys; i++ {
		if failAt[i] {
			pos = append(pos, strconv.Itoa(i))
		}
	}
	what := fmt.Sprintf("table-writer-after-rollback:keys=%d,index-fault-at=%s", nkeys, strings.Join(pos, "+"))
	err := safely(func() error {
		w, err := sstables.NewSSTableStreamWriter(sstables.WriteBasePath(path), sstables.WithKeyComparator(skiplist.BytesComparator{}),
			sstables.WriteBufferSizeBytes([]int{64, 4096, 65536}[r.Intn(3)]))
		if err != nil {
			return err
		}
		if err := w.Open(); err != nil {
			return err
		}
		w.VerifWrapWriters(nil, func(i rProto.WriterI) rProto.WriterI { return &hFailingIndexWriter{WriterI: i, failAt: failAt} })
		rolledBack, lastRolledBack := 0, false
		for i := 0; i < nkeys; i++ {
			v := r.Bytes(1 + r.Intn(60))
			if failAt[i] && r.Chance(60) {
				v = r.Bytes(100 + r.Intn(3000))
			}
			err := w.WriteNext([]byte(fmt.Sprintf("key-%06d", i)), v)
			if failAt[i] {
				if err == nil {
					return fmt.Errorf("WriteNext %d: the injected index fault was not reported", i)
				}
				rolledBack++
			} else if err != nil {
				return fmt.Errorf("WriteNext %d: %w", i, err)
			}
			lastRolledBack = failAt[i]
		}
		res.StatN("case:table-writer:rolled-back-writes", rolledBack)
		if lastRolledBack {
			res.Stat("case:table-writer:closed-right-after-rollback")
		} else {
			res.Stat("case:table-writer:closed-after-rollback-and-more-writes")
		}
		if err := expect(what+":open", 3); err != nil {
			return err
		}
		if err := w.Close(); err != nil {
			return err
		}
		return expect(what+":closed", 0)
	})
	if err != nil {
		return fmt.Errorf("rolled-back table writer (%s): %w", what, err)
	}
	return nil
}

func handlesMinInt(a, b int) int {
	if a < b {
		return a
	}
	return b
}
