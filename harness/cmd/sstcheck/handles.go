package main

import (
	"bufio"
	"bytes"
	"errors"
	"fmt"
	"os"
	"path/filepath"
	"regexp"
	"runtime"
	"runtime/debug"
	"runtime/pprof"
	"sort"
	"strconv"
	"strings"
	"time"

	"github.com/thomasjungblut/go-sstables/memstore"
	"github.com/thomasjungblut/go-sstables/recordio"
	rProto "github.com/thomasjungblut/go-sstables/recordio/proto"
	"github.com/thomasjungblut/go-sstables/simpledb"
	dbproto "github.com/thomasjungblut/go-sstables/simpledb/proto"
	"github.com/thomasjungblut/go-sstables/skiplist"
	"github.com/thomasjungblut/go-sstables/sstables"
	"github.com/thomasjungblut/go-sstables/wal"
	"google.golang.org/protobuf/proto"
)

// ---------------------------------------------------------------------------------------------
// stream "handles" (C19): descriptors (/proc/self/fd), mappings (/proc/self/maps) and library goroutines
// (goroutine profile) of this process under a session directory, after every step of
//   - SimpleDB sessions with hook-placed rotations / flush waits / compaction cycles (compared with the Lean
//     handle model step by step), compaction goroutine off, idle (1 h interval) or really ticking (few ms),
//   - stand-alone table readers with scans (complete, abandoned, range) and Close,
//   - recordio readers / writers and the WAL appender / replayer, incl. writers that were rewound with Seek and are
//     closed below their high-water mark (buffered and direct I/O) and table writers closed after a rolled-back
//     WriteNext (index write fault through the hook),
//   - a soak session with many flush + compaction + reopen cycles,
//   - (runtime oracles only, second generator, see hxExtra) database lifecycles that START from a crash-like
//     directory state (header-less newest WAL file, unfinished / half-removed table directories, unflagged,
//     unreadably flagged and flagged compaction directories): Open, work, Close, Open, Close,
//   - (same) error paths: constructors / Open / Scan / compaction / Close that fail have to release what they
//     had opened (one family per leak repaired in /repo, inputs drawn per case).
//
// Measured on the unchanged tree: at every quiescent point (client call returned, flusher idle, no compaction
// cycle running) the handles under the directory are exactly one WAL descriptor plus one data.rio mapping per
// live table, i.e. #live + 1.  That constant (1) is what the bound oracle uses at quiescent points.  While a
// compaction cycle and a flush are in progress the code additionally holds, per selected table, its own
// reader mapping and scanner descriptor, and up to 3 + 1 writer descriptors each for the compaction and the
// flush plus the table the flusher has opened and not yet published: the non-quiescent samples of the
// ticking sessions are therefore only checked against 3*(#live+1) + 10.
//
// The garbage collector is switched off while a case runs (os.File and mmap.ReaderAt have finalizers that
// would release a leaked handle at a random later time and hide the leak); it runs between cases.

const hQuiescentConst = 1 // measured: the WAL file

var hWalRe = regexp.MustCompile(`^fd:wal/[0-9]{6}\.wal$`)

// hObserve lists the descriptors and mappings of this process below dir as "fd:<rel>" / "map:<rel>", sorted.
func hObserve(dir string) ([]string, error) {
	var out []string
	ents, err := os.ReadDir("/proc/self/fd")
	if err != nil {
		return nil, err
	}
	for _, e := range ents {
		t, err := os.Readlink("/proc/self/fd/" + e.Name())
		if err != nil {
			continue // the descriptor of the directory listing itself is gone by now
		}
		if strings.HasPrefix(t, dir+"/") {
			out = append(out, "fd:"+strings.ReplaceAll(strings.TrimPrefix(t, dir+"/"), " ", "_"))
		}
	}
	f, err := os.Open("/proc/self/maps")
	if err != nil {
		return nil, err
	}
	defer f.Close()
	sc := bufio.NewScanner(f)
	sc.Buffer(make([]byte, 1<<20), 1<<24)
	for sc.Scan() {
		fs := strings.Fields(sc.Text())
		if len(fs) >= 6 {
			p := strings.Join(fs[5:], " ")
			if strings.HasPrefix(p, dir+"/") {
				out = append(out, "map:"+strings.ReplaceAll(strings.TrimPrefix(p, dir+"/"), " ", "_"))
			}
		}
	}
	if err := sc.Err(); err != nil {
		return nil, err
	}
	sort.Strings(out)
	return out, nil
}

// goroutines of the two loops that an EARLIER case left behind (a leak is reported where it happens, not again
// in every later case)
var hBaseFlusher, hBaseTicker int

// hGoroutines counts the live goroutines of the library's two background loops (whole process) that the
// current case started.
func hGoroutines() (flusher, ticker int) {
	f, t := hGoroutinesAbs()
	f -= hBaseFlusher
	t -= hBaseTicker
	if f < 0 {
		f = 0
	}
	if t < 0 {
		t = 0
	}
	return f, t
}

func hGoroutinesAbs() (flusher, ticker int) {
	for try := 0; ; try++ {
		var buf bytes.Buffer
		_ = pprof.Lookup("goroutine").WriteTo(&buf, 2)
		flusher, ticker = 0, 0
		unstarted := false
		for _, blk := range strings.Split(buf.String(), "\n\n") {
			if strings.Contains(blk, "simpledb.flushMemstoreContinuously") {
				flusher++
			}
			if strings.Contains(blk, "simpledb.backgroundCompaction") {
				ticker++
			}
			// a goroutine that `go f(db)` in Open has created and that has not run yet shows only the compiler's
			// wrapper frame: let it start, then look again
			if strings.Contains(blk, "simpledb.(*DB).Open.gowrap") {
				unstarted = true
			}
		}
		if !unstarted || try > 1000 {
			return
		}
		time.Sleep(50 * time.Microsecond)
	}
}

// hCanon: the canonical text the Lean driver prints for a handle multiset
func hCanon(items []string, flusher, ticker int) string {
	all := append([]string{}, items...)
	for i := 0; i < flusher; i++ {
		all = append(all, "go:flusher")
	}
	for i := 0; i < ticker; i++ {
		all = append(all, "go:ticker")
	}
	if len(all) == 0 {
		return "none"
	}
	sort.Strings(all)
	return strings.Join(all, ";")
}

// hWaitNoGoroutines polls until both loops have ended (Close joins them, the goroutines may need a moment to
// leave their deferred send).
func hWaitNoGoroutines() (int, int) {
	var f, t int
	for i := 0; i < 200; i++ {
		f, t = hGoroutines()
		if f == 0 && t == 0 {
			return 0, 0
		}
		time.Sleep(time.Millisecond)
	}
	return f, t
}

func runHandles(res *Result, drv *Driver, seed uint64, n int, tier string, only int) error {
	res.Rule = "cases: SimpleDB sessions (compactions off / idle ticker: handle set compared with the Lean model after every sampled step; " +
		"real ticker: bound + release only), table-reader programs (Scan complete/abandoned, ScanStartingAt/ScanRange, Close, scan after Close), " +
		"recordio reader/writer + WAL appender/replayer open-close cases, soak sessions; oracle at every quiescent sample: #fd+#map under the " +
		"directory <= #live tables + 1, after Close: none, no library goroutine, directory removable and re-openable; " +
		"non-trivial = a session with at least one flush and one merging compaction, a reader case with >= 2 scanners, or a recordio/WAL case; distinct = distinct step strings / parameters; " +
		"in addition (idx%4 == 1) Open/work/Close lifecycles on crash-like directory states (14 classes, stats case:crash-state:*; same bound and release oracles, " +
		"Open has to succeed where the recovery code documents the state as recoverable) and (idx%4 == 2) error-path cases (12 families, stats case:error-path:*: " +
		"whatever failed, nothing it opened stays open - descriptors incl. /dev/full, mappings, library goroutines); every such case counts as non-trivial"
	old := debug.SetGCPercent(-1)
	defer debug.SetGCPercent(old)
	for idx := 0; idx < n; idx++ {
		if only >= 0 && idx != only {
			continue
		}
		r := NewRng(seed, uint64(idx))
		hBaseFlusher, hBaseTicker = hGoroutinesAbs()
		if hBaseFlusher+hBaseTicker > 0 {
			res.Stat("goroutines-inherited-from-earlier-case")
		}
		var err error
		switch {
		case idx == 0:
			cycles := 60
			if tier == "thorough" {
				cycles = 1000
			}
			err = hSoak(res, drv, r, idx, cycles)
		case idx%8 == 3:
			err = hTicker(res, r, idx, tier)
		case idx%8 == 5:
			err = hReader(res, drv, r, idx)
		case idx%8 == 7:
			err = hRecordio(res, r, idx)
		default:
			err = hSession(res, drv, r, idx, tier)
		}
		if err != nil {
			return err
		}
		// additional cases (own generator state: what the indices above generate stays as it was)
		if err := hxExtra(res, seed, idx); err != nil {
			return err
		}
		runtime.GC()
	}
	return nil
}

// ---------------------------------------------------------------------------------------------
// deterministic sessions

type hTrace struct {
	steps  []string // model steps
	implR  []string // result part of the model's answer format
	implH  []string // handle part ("?" = not sampled)
	human  []string
	sample int
}

func (t *hTrace) emit(step, result, handles string) {
	t.steps = append(t.steps, step)
	t.implR = append(t.implR, result)
	t.implH = append(t.implH, handles)
}

// compare asks the model for the whole program and compares results everywhere, handle sets where sampled
func (t *hTrace) compare(res *Result, drv *Driver, idx int, what string) error {
	m, err := drv.Ask("handles.run steps=" + strings.Join(t.steps, ","))
	if err != nil {
		return err
	}
	mt := strings.Split(m, " ")
	var ms, is []string
	for i := range t.steps {
		is = append(is, t.implR[i]+"|"+t.implH[i])
		if i < len(mt) {
			tok := mt[i]
			if t.implH[i] == "?" {
				if k := strings.Index(tok, "|"); k >= 0 {
					tok = tok[:k] + "|?"
				}
			}
			ms = append(ms, tok)
		}
	}
	if len(mt) != len(t.steps) {
		ms = mt
	}
	res.Cmp(idx, what, strings.Join(ms, " "), strings.Join(is, " "), strings.Join(t.human, " "))
	return nil
}

type hDb struct {
	res     *Result
	idx     int
	dir     string
	db      *simpledb.DB
	opts    dbOpts
	mode    string // "off" (DisableCompactions), "idle" (ticker with a 1 h interval)
	async   bool
	direct  bool
	opened  bool
	tr      *hTrace
	ctx     string // last internal action, for violation signatures
	flushes int
	merges  int
}

func (h *hDb) extra() []simpledb.ExtraOption {
	o := []simpledb.ExtraOption{
		simpledb.MemstoreSizeBytes(h.opts.memstore),
		simpledb.CompactionFileThreshold(h.opts.threshold),
		simpledb.CompactionMaxSizeBytes(h.opts.maxSize),
		simpledb.CompactionRatio(float32(h.opts.ratioNum) / float32(h.opts.ratioDen)),
		simpledb.ReadBufferSizeBytes(h.opts.rbuf),
		simpledb.WriteBufferSizeBytes(h.opts.wbuf),
	}
	if h.mode == "off" {
		o = append(o, simpledb.DisableCompactions())
	} else {
		o = append(o, simpledb.CompactionRunInterval(time.Hour))
	}
	if h.async {
		o = append(o, simpledb.EnableAsyncWAL())
	}
	if h.direct {
		o = append(o, simpledb.EnableDirectIOWAL())
	}
	return o
}

func (h *hDb) cs() string { return strings.Join(h.tr.human, " ") }

// sample: handles under the directory now, checked against the bound; returns the canonical text
func (h *hDb) sample(live int, closed bool) (string, error) {
	items, err := hObserve(h.dir)
	if err != nil {
		return "", err
	}
	var f, t int
	if closed {
		f, t = hWaitNoGoroutines()
	} else {
		f, t = hGoroutines()
	}
	h.tr.sample++
	h.res.Evaluations++
	if closed {
		if len(items) > 0 {
			h.res.Violate(h.idx, "C19", "handles-left-after-close:last-internal-"+h.ctx, fmt.Sprintf("after Close: %v", items), h.cs())
		}
		if f != 0 || t != 0 {
			h.res.Violate(h.idx, "C19", "goroutine-left-after-close", fmt.Sprintf("after Close: %d flusher, %d compaction goroutines", f, t), h.cs())
		}
	} else {
		if len(items) > live+hQuiescentConst {
			h.res.Violate(h.idx, "C19", "handles-exceed-bound:after-"+h.ctx,
				fmt.Sprintf("%d live tables, %d descriptors+mappings: %v", live, len(items), items), h.cs())
		}
		if f > 1 || t > 1 {
			h.res.Violate(h.idx, "C19", "goroutines-exceed-bound", fmt.Sprintf("%d flusher, %d compaction goroutines", f, t), h.cs())
		}
	}
	h.res.StatN("handles:max-at-sample", 0)
	if len(items) > h.res.Stats["handles:max-at-sample"] {
		h.res.Stats["handles:max-at-sample"] = len(items)
	}
	return hCanon(items, f, t), nil
}

func (h *hDb) open() error {
	d, err := simpledb.NewSimpleDB(h.dir, h.extra()...)
	if err != nil {
		return err
	}
	if err := safely(d.Open); err != nil {
		h.res.Violate(h.idx, "C19", "open-failed", err.Error(), h.cs())
		return nil
	}
	h.db = d
	h.opened = true
	tok := h.opts.modelTok()
	if h.mode == "idle" {
		tok = "opent" + strings.TrimPrefix(tok, "open")
	}
	h.tr.human = append(h.tr.human, fmt.Sprintf("open(%s,mem=%d,thr=%d,max=%d,ratio=%d/%d,async=%v,direct=%v)", h.mode, h.opts.memstore,
		h.opts.threshold, h.opts.maxSize, h.opts.ratioNum, h.opts.ratioDen, h.async, h.direct))
	h.ctx = "open"
	names, _, _, _ := d.VerifTables()
	s, err := h.sample(len(names), false)
	if err != nil {
		return err
	}
	h.tr.emit(tok, "-", s)
	return nil
}

// quiesce waits for the flusher, cross-checks the live tables and samples
func (h *hDb) quiesce() error {
	h.db.VerifWaitFlushIdle()
	h.tr.emit("flush", "-", "?")
	names, _, _, _ := h.db.VerifTables()
	g, err := gensOf(names)
	if err != nil {
		return err
	}
	s, err := h.sample(len(names), false)
	if err != nil {
		return err
	}
	h.tr.emit("tables", "t:"+g, s)
	return nil
}

func (h *hDb) put(k, v []byte) {
	err := h.db.PutBytes(k, v)
	out := dbRes(err)
	rot := "0"
	if err == nil && h.db.VerifMemstoreEstimate() == 0 {
		rot = "1"
		h.flushes++
		h.res.Stat("rotation:size-triggered")
		h.ctx = "flush"
	}
	h.tr.emit("pb:"+gb(k)+":"+gb(v)+":"+rot, out, "?")
	h.tr.human = append(h.tr.human, fmt.Sprintf("put(%x,%dB)=%s", k, len(v), out))
}

func (h *hDb) rotate() {
	err := h.db.VerifRotate()
	if err != nil {
		h.res.Violate(h.idx, "C19", "rotate-failed", err.Error(), h.cs())
	}
	h.tr.emit("rot", "-", "?")
	h.tr.human = append(h.tr.human, "rotate")
	h.flushes++
	h.ctx = "flush"
}

// compact runs one compaction cycle through the hook (flusher idle first: the model's selection needs the sizes)
func (h *hDb) compact() (bool, error) {
	h.db.VerifWaitFlushIdle()
	h.tr.emit("flush", "-", "?")
	names, sizes, _, _ := h.db.VerifTables()
	before, err := gensOf(names)
	if err != nil {
		return false, err
	}
	h.tr.emit("tables", "t:"+before, "?")
	var szs []string
	for _, s := range sizes {
		szs = append(szs, strconv.FormatUint(s, 10))
	}
	var sel []string
	err = safely(func() error {
		var e error
		sel, _, e = h.db.VerifCompactOnce()
		return e
	})
	if err != nil {
		h.res.Violate(h.idx, "C19", "compaction-failed", err.Error(), h.cs())
		return false, nil
	}
	g, err := gensOf(sel)
	if err != nil {
		return false, err
	}
	h.tr.emit("compact:"+strings.Join(szs, ";"), "sel:"+g, "?")
	h.tr.human = append(h.tr.human, fmt.Sprintf("compact[%s→sel %s]", before, g))
	if len(sel) > 0 {
		h.merges++
		h.res.Stat("op:compact:merged")
		h.res.Stat(fmt.Sprintf("op:compact:inputs=%d", minInt(len(sel), 6)))
	} else {
		h.res.Stat("op:compact:nothing-selected")
	}
	h.ctx = "compaction"
	return true, nil
}

func (h *hDb) close() (bool, error) {
	err := safely(h.db.Close)
	if err != nil {
		h.res.Violate(h.idx, "C19", "close-failed", err.Error(), h.cs())
		return false, nil
	}
	h.opened = false
	h.flushes++
	h.tr.human = append(h.tr.human, "close")
	s, err := h.sample(0, true)
	if err != nil {
		return false, err
	}
	h.tr.emit("close", "ok", s)
	// the WAL files a clean Close leaves on disk (the next Open's replayer opens every one of them): the model
	// keeps book of them as well
	files, _ := filepath.Glob(filepath.Join(h.dir, simpledb.WriteAheadFolder, "*.wal"))
	var nums []string
	sort.Strings(files)
	for _, f := range files {
		n, err := strconv.Atoi(strings.TrimSuffix(filepath.Base(f), ".wal"))
		if err != nil {
			return false, fmt.Errorf("unexpected WAL file name %q", f)
		}
		nums = append(nums, strconv.Itoa(n))
	}
	h.tr.emit("wals", "w:"+strings.Join(nums, ";"), "?")
	h.res.Stat(fmt.Sprintf("close:wal-files-left=%d", handlesMinInt(len(files), 6)))
	return true, nil
}

// finish: after the last Close the directory can be removed, re-created and opened again by this process
func (h *hDb) finish() error {
	h.res.Evaluations++
	if err := os.RemoveAll(h.dir); err != nil {
		h.res.Violate(h.idx, "C19", "directory-not-removable-after-close", err.Error(), h.cs())
		return nil
	}
	if err := os.MkdirAll(h.dir, 0o700); err != nil {
		return err
	}
	err := safely(func() error {
		d, err := simpledb.NewSimpleDB(h.dir, simpledb.DisableCompactions())
		if err != nil {
			return err
		}
		if err := d.Open(); err != nil {
			return err
		}
		if err := d.Put("k", "v"); err != nil {
			return err
		}
		if v, err := d.Get("k"); err != nil || v != "v" {
			return fmt.Errorf("Get after re-creation: %q %v", v, err)
		}
		return d.Close()
	})
	if err != nil {
		h.res.Violate(h.idx, "C19", "directory-not-reopenable-after-close", err.Error(), h.cs())
		return nil
	}
	items, err := hObserve(h.dir)
	if err != nil {
		return err
	}
	f, t := hWaitNoGoroutines()
	if len(items) > 0 || f+t > 0 {
		h.res.Violate(h.idx, "C19", "handles-left-after-close:fresh-directory", fmt.Sprintf("%v flusher=%d ticker=%d", items, f, t), h.cs())
	}
	return nil
}

func hTempDir(kind string) (string, error) {
	dir, err := os.MkdirTemp("", "verif-handles-"+kind+"-")
	if err != nil {
		return "", err
	}
	if real, err := filepath.EvalSymlinks(dir); err == nil {
		dir = real
	}
	return dir, nil
}

func hGenOpts(r *Rng) dbOpts {
	o := genDbOpts(r)
	// compaction friendly: most sessions must actually merge
	if r.Chance(70) {
		o.threshold = []int{0, 0, 1, 1, 2}[r.Intn(5)]
		o.maxSize = uint64([]int{1 << 30, 1 << 30, 5000, 1000}[r.Intn(4)])
	}
	return o
}

func hSession(res *Result, drv *Driver, r *Rng, idx int, tier string) error {
	dir, err := hTempDir("db")
	if err != nil {
		return err
	}
	defer os.RemoveAll(dir)
	res.Cases++
	h := &hDb{res: res, idx: idx, dir: dir, tr: &hTrace{}, opts: hGenOpts(r), mode: "off", ctx: "none"}
	if r.Chance(40) {
		h.mode = "idle"
	}
	h.async = r.Chance(25)
	if h.async && r.Chance(50) { // the direct I/O writer has no synchronous append: only with the async WAL
		if ok, _ := recordio.IsDirectIOAvailable(); ok {
			h.direct = true
		}
	}
	res.Stat("case:session:compactions-" + h.mode)
	if h.async {
		res.Stat("case:session:async-wal")
	}
	if h.direct {
		res.Stat("case:session:directio-wal")
	}
	if err := h.open(); err != nil || !h.opened {
		return err
	}
	nk := 3 + r.Intn(5)
	keys := make([][]byte, nk)
	for i := range keys {
		keys[i] = []byte{byte('a' + i)}
	}
	nops := 12 + r.Intn(30)
	if tier == "thorough" && r.Chance(20) {
		nops = 60 + r.Intn(120)
	}
	for op := 0; op < nops && h.opened; op++ {
		k := keys[r.Intn(len(keys))]
		sampleNow := r.Chance(88)
		switch c := r.Intn(100); {
		case c < 36:
			v := r.Bytes(1 + r.Intn(30))
			if r.Chance(10) {
				v = bytesRepeat(byte(r.Next()), 200+r.Intn(3000))
			}
			h.put(k, v)
			res.Stat("op:put")
		case c < 46:
			err := h.db.DeleteBytes(k)
			h.tr.emit("db:"+gb(k), dbRes(err), "?")
			h.tr.human = append(h.tr.human, fmt.Sprintf("del(%x)", k))
			res.Stat("op:delete")
		case c < 50:
			v, err := h.db.GetBytes(k)
			out := dbRes(err)
			if err == nil {
				out = "val:" + gb(nonNil(v))
			}
			h.tr.emit("g:"+gb(k), out, "?")
			res.Stat("op:get")
		case c < 66:
			h.rotate()
			res.Stat("op:rotate")
			if r.Chance(25) { // two rotations back to back: the second hand-off waits for the first flush
				h.rotate()
				res.Stat("op:rotate:back-to-back")
			}
		case c < 70:
			res.Stat("op:waitflush")
			sampleNow = true
		case c < 88:
			ok, err := h.compact()
			if err != nil {
				return err
			}
			if !ok {
				h.opened = false
			}
		default:
			ok, err := h.close()
			if err != nil {
				return err
			}
			if !ok {
				break
			}
			if r.Chance(30) { // a closed handle rejects calls and opens nothing
				_, gerr := h.db.Get(string(k))
				h.tr.emit("g:"+gb(k), dbRes(gerr), "?")
				perr := h.db.Put(string(k), "x")
				items, err := hObserve(h.dir)
				if err != nil {
					return err
				}
				f, t := hGoroutines()
				h.tr.emit("ps:"+gb(k)+":78:0", dbRes(perr), hCanon(items, f, t))
			}
			h.opts = hGenOpts(r)
			h.mode = "off"
			if r.Chance(40) {
				h.mode = "idle"
			}
			if err := h.open(); err != nil {
				return err
			}
			res.Stat("op:reopen")
			sampleNow = false
		}
		if h.opened && sampleNow {
			if err := h.quiesce(); err != nil {
				return err
			}
		}
	}
	if h.opened {
		if _, err := h.close(); err != nil {
			return err
		}
	}
	if !h.opened {
		if err := h.finish(); err != nil {
			return err
		}
	}
	cs := strings.Join(h.tr.steps, ",")
	if h.flushes > 0 && h.merges > 0 {
		res.NoteNontrivial(cs)
	}
	res.StatN("samples:session", h.tr.sample)
	res.Sample(h.cs())
	return h.tr.compare(res, drv, idx, "handles.run")
}

// hSoak: one long session of put / rotate / flush / compaction cycles with a reopen now and then; every cycle
// is sampled and compared with the model, the garbage collector runs every 20 cycles (after the sample).
func hSoak(res *Result, drv *Driver, r *Rng, idx int, cycles int) error {
	dir, err := hTempDir("soak")
	if err != nil {
		return err
	}
	defer os.RemoveAll(dir)
	res.Cases++
	res.Stat(fmt.Sprintf("case:soak:cycles=%d", cycles))
	o := dbOpts{memstore: 1 << 40, threshold: 2, maxSize: 1 << 30, ratioNum: 1, ratioDen: 1, rbuf: 4096, wbuf: 4096}
	h := &hDb{res: res, idx: idx, dir: dir, tr: &hTrace{}, opts: o, mode: "idle", ctx: "none"}
	if err := h.open(); err != nil || !h.opened {
		return err
	}
	maxLive := 0
	for c := 0; c < cycles && h.opened; c++ {
		for i := 0; i <= r.Intn(3); i++ {
			h.put([]byte{byte('a' + r.Intn(6))}, r.Bytes(1+r.Intn(12)))
		}
		if r.Chance(20) {
			k := []byte{byte('a' + r.Intn(6))}
			err := h.db.DeleteBytes(k)
			h.tr.emit("db:"+gb(k), dbRes(err), "?")
		}
		h.rotate()
		if r.Chance(60) {
			ok, err := h.compact()
			if err != nil {
				return err
			}
			if !ok {
				break
			}
		}
		if err := h.quiesce(); err != nil {
			return err
		}
		names, _, _, _ := h.db.VerifTables()
		if len(names) > maxLive {
			maxLive = len(names)
		}
		if c%100 == 99 {
			ok, err := h.close()
			if err != nil {
				return err
			}
			if !ok {
				break
			}
			if err := h.open(); err != nil {
				return err
			}
			res.Stat("op:reopen")
		}
		if c%20 == 19 {
			runtime.GC()
		}
	}
	if h.opened {
		if _, err := h.close(); err != nil {
			return err
		}
	}
	if !h.opened {
		if err := h.finish(); err != nil {
			return err
		}
	}
	res.StatN("samples:soak", h.tr.sample)
	res.StatN("soak:flushes", h.flushes)
	res.StatN("soak:merging-compactions", h.merges)
	res.Stats["soak:max-live-tables"] = maxLive
	if h.flushes > 0 && h.merges > 0 {
		res.NoteNontrivial(strings.Join(h.tr.steps, ","))
	}
	// the human readable trace of a soak is too long to be useful: keep the head
	if len(h.tr.human) > 60 {
		h.tr.human = append(h.tr.human[:60], "…")
	}
	return h.tr.compare(res, drv, idx, "handles.run(soak)")
}

// ---------------------------------------------------------------------------------------------
// sessions with the real compaction ticker: only the bound and the release are checked

func hTicker(res *Result, r *Rng, idx int, tier string) error {
	dir, err := hTempDir("tick")
	if err != nil {
		return err
	}
	defer os.RemoveAll(dir)
	res.Cases++
	threshold := []int{0, 1, 1, 2}[r.Intn(4)]
	interval := time.Duration(1+r.Intn(4)) * time.Millisecond
	mem := uint64(1 << 40)
	if r.Chance(50) {
		mem = uint64([]int{40, 120, 400}[r.Intn(3)])
	}
	res.Stat(fmt.Sprintf("case:ticker:threshold=%d", threshold))
	var human []string
	human = append(human, fmt.Sprintf("open(ticker=%v,thr=%d,mem=%d)", interval, threshold, mem))
	cs := func() string { return strings.Join(human, " ") }
	d, err := simpledb.NewSimpleDB(dir, simpledb.CompactionRunInterval(interval), simpledb.CompactionFileThreshold(threshold),
		simpledb.CompactionMaxSizeBytes(1<<30), simpledb.MemstoreSizeBytes(mem), simpledb.ReadBufferSizeBytes(4096), simpledb.WriteBufferSizeBytes(4096))
	if err != nil {
		return err
	}
	if err := safely(d.Open); err != nil {
		res.Violate(idx, "C19", "open-failed", err.Error(), cs())
		return nil
	}
	nops := 40 + r.Intn(60)
	if tier == "thorough" {
		nops *= 3
	}
	maxSeen, samples := 0, 0
	weak := func() error {
		n1, _, _, _ := d.VerifTables()
		items, err := hObserve(dir)
		if err != nil {
			return err
		}
		n2, _, _, _ := d.VerifTables()
		live := len(n1)
		if len(n2) > live {
			live = len(n2)
		}
		samples++
		res.Evaluations++
		if len(items) > maxSeen {
			maxSeen = len(items)
		}
		if len(items) > 3*(live+1)+10 {
			res.Violate(idx, "C19", "handles-exceed-transient-bound:ticker", fmt.Sprintf("<=%d live tables, %d descriptors+mappings: %v", live, len(items), items), cs())
		}
		f, t := hGoroutines()
		if f > 1 || t > 1 {
			res.Violate(idx, "C19", "goroutines-exceed-bound", fmt.Sprintf("%d flusher, %d compaction goroutines", f, t), cs())
		}
		return nil
	}
	for op := 0; op < nops; op++ {
		switch c := r.Intn(100); {
		case c < 50:
			k := []byte{byte('a' + r.Intn(8))}
			v := r.Bytes(1 + r.Intn(40))
			if err := d.PutBytes(k, v); err != nil {
				res.Violate(idx, "C19", "put-failed", err.Error(), cs())
			}
			human = append(human, fmt.Sprintf("put(%x,%dB)", k, len(v)))
		case c < 58:
			_ = d.DeleteBytes([]byte{byte('a' + r.Intn(8))})
			human = append(human, "del")
		case c < 78:
			if err := d.VerifRotate(); err != nil {
				res.Violate(idx, "C19", "rotate-failed", err.Error(), cs())
			}
			human = append(human, "rotate")
		default:
			ms := r.Intn(4)
			time.Sleep(time.Duration(ms) * time.Millisecond)
			human = append(human, fmt.Sprintf("sleep(%dms)", ms))
		}
		if err := weak(); err != nil {
			return err
		}
	}
	// with a positive threshold the compaction comes to rest once at most `threshold` tables are left:
	// then the strict bound applies
	if threshold >= 1 {
		d.VerifWaitFlushIdle()
		rest := false
		for i := 0; i < 2000; i++ {
			names, _, _, _ := d.VerifTables()
			cdirs, _ := filepath.Glob(filepath.Join(dir, simpledb.SSTableCompactionPathPrefix+"*"))
			if len(names) <= threshold && len(cdirs) == 0 {
				rest = true
				break
			}
			time.Sleep(time.Millisecond)
		}
		if rest {
			time.Sleep(3 * interval)
			names, _, _, _ := d.VerifTables()
			items, err := hObserve(dir)
			if err != nil {
				return err
			}
			res.Evaluations++
			res.Stat("ticker:came-to-rest")
			human = append(human, fmt.Sprintf("rest(%d tables)", len(names)))
			if len(items) > len(names)+hQuiescentConst {
				res.Violate(idx, "C19", "handles-exceed-bound:after-ticker-compactions", fmt.Sprintf("%d live tables, %d descriptors+mappings: %v", len(names), len(items), items), cs())
			}
		} else {
			res.Stat("ticker:never-came-to-rest")
		}
	}
	human = append(human, "close")
	if err := safely(d.Close); err != nil {
		res.Violate(idx, "C19", "close-failed", err.Error(), cs())
		return nil
	}
	items, err := hObserve(dir)
	if err != nil {
		return err
	}
	f, t := hWaitNoGoroutines()
	res.Evaluations++
	if len(items) > 0 {
		res.Violate(idx, "C19", "handles-left-after-close:ticker", fmt.Sprintf("after Close: %v", items), cs())
	}
	if f != 0 || t != 0 {
		res.Violate(idx, "C19", "goroutine-left-after-close", fmt.Sprintf("after Close: %d flusher, %d compaction goroutines", f, t), cs())
	}
	h := &hDb{res: res, idx: idx, dir: dir, tr: &hTrace{human: human}}
	if err := h.finish(); err != nil {
		return err
	}
	res.StatN("samples:ticker", samples)
	if maxSeen > res.Stats["ticker:max-handles-at-sample"] {
		res.Stats["ticker:max-handles-at-sample"] = maxSeen
	}
	res.Sample(cs())
	return nil
}

// ---------------------------------------------------------------------------------------------
// stand-alone table reader

func hWriteTable(path string, nkeys int, r *Rng) ([][]byte, error) {
	if err := os.MkdirAll(path, 0o700); err != nil {
		return nil, err
	}
	w, err := sstables.NewSSTableStreamWriter(sstables.WriteBasePath(path), sstables.WithKeyComparator(skiplist.BytesComparator{}),
		sstables.WriteBufferSizeBytes(4096))
	if err != nil {
		return nil, err
	}
	if err := w.Open(); err != nil {
		return nil, err
	}
	var keys [][]byte
	for i := 0; i < nkeys; i++ {
		k := []byte(fmt.Sprintf("key-%06d", i))
		keys = append(keys, k)
		if err := w.WriteNext(k, r.Bytes(1+r.Intn(50))); err != nil {
			return nil, err
		}
	}
	return keys, w.Close()
}

func hReader(res *Result, drv *Driver, r *Rng, idx int) error {
	dir, err := hTempDir("reader")
	if err != nil {
		return err
	}
	defer os.RemoveAll(dir)
	res.Cases++
	gen := 1 + r.Intn(999)
	path := filepath.Join(dir, fmt.Sprintf(simpledb.SSTablePattern, gen))
	nkeys := []int{0, 1, 2, 10, 100, 400}[r.Intn(6)]
	keys, err := hWriteTable(path, nkeys, r)
	if err != nil {
		return err
	}
	var human []string
	cs := func() string { return fmt.Sprintf("table(gen=%d,keys=%d) ", gen, nkeys) + strings.Join(human, " ") }
	if items, err := hObserve(dir); err != nil {
		return err
	} else if len(items) > 0 {
		res.Violate(idx, "C19", "table-writer-close-leaves-handle", fmt.Sprint(items), cs())
	}
	loader := []string{"slice", "slice", "skiplist", "map", "disk"}[r.Intn(5)]
	res.Stat("case:reader:loader-" + loader)
	ropts := []sstables.ReadOption{sstables.ReadBasePath(path), sstables.ReadBufferSizeBytes(4096)}
	switch loader {
	case "skiplist":
		ropts = append(ropts, sstables.ReadIndexLoader(&sstables.SkipListIndexLoader{KeyComparator: skiplist.BytesComparator{}, ReadBufferSize: 4096}))
	case "map":
		ropts = append(ropts, sstables.ReadIndexLoader(&sstables.MapKeyIndexLoader[[20]byte]{ReadBufferSize: 4096, Mapper: &sstables.Byte20KeyMapper{}}))
	case "disk":
		ropts = append(ropts, sstables.ReadIndexLoader(&sstables.DiskIndexLoader{}))
	}
	var steps, impl []string
	sample := func(step string) (int, error) {
		items, err := hObserve(dir)
		if err != nil {
			return 0, err
		}
		steps = append(steps, step)
		impl = append(impl, hCanon(items, 0, 0))
		res.Evaluations++
		return len(items), nil
	}
	var rd sstables.SSTableReaderI
	if err := safely(func() error { var e error; rd, e = sstables.NewSSTableReader(ropts...); return e }); err != nil {
		res.Violate(idx, "C19", "reader-open-failed", err.Error(), cs())
		return nil
	}
	human = append(human, "new("+loader+")")
	if _, err := sample("new"); err != nil {
		return err
	}
	var scanners []sstables.SSTableIteratorI
	nsteps := 3 + r.Intn(25)
	nscans := 0
	drain := func(it sstables.SSTableIteratorI, limit int) {
		for i := 0; limit < 0 || i < limit; i++ {
			if _, _, err := it.Next(); err != nil {
				return
			}
		}
	}
	doStep := func() error {
		switch c := r.Intn(100); {
		case c < 40:
			it, err := rd.Scan()
			if err != nil {
				res.Violate(idx, "C19", "scan-failed", err.Error(), cs())
				return nil
			}
			scanners = append(scanners, it)
			nscans++
			human = append(human, "scan")
			_, err = sample("scan")
			return err
		case c < 55:
			var it sstables.SSTableIteratorI
			var err error
			if len(keys) > 0 && r.Chance(50) {
				it, err = rd.ScanStartingAt(keys[r.Intn(len(keys))])
				human = append(human, "scanStartingAt")
			} else {
				it, err = rd.ScanRange([]byte("key-000001"), []byte("key-000050"))
				human = append(human, "scanRange")
			}
			if err == nil {
				drain(it, r.Intn(20)-1)
			}
			_, err = sample("scanat")
			return err
		case c < 78:
			if len(scanners) == 0 {
				return nil
			}
			drain(scanners[r.Intn(len(scanners))], -1)
			human = append(human, "finishScan")
			res.Stat("reader:scan-complete")
			_, err := sample("finish")
			return err
		default:
			if len(scanners) == 0 {
				return nil
			}
			i := r.Intn(len(scanners))
			drain(scanners[i], r.Intn(5))
			scanners = append(scanners[:i], scanners[i+1:]...)
			human = append(human, "abandonScan")
			res.Stat("reader:scan-abandoned")
			_, err := sample("abandon")
			return err
		}
	}
	for i := 0; i < nsteps; i++ {
		if err := doStep(); err != nil {
			return err
		}
	}
	if err := safely(rd.Close); err != nil {
		res.Violate(idx, "C19", "reader-close-failed", err.Error(), cs())
	}
	human = append(human, "close")
	left, err := sample("close")
	if err != nil {
		return err
	}
	if left > 0 {
		res.Violate(idx, "C19", fmt.Sprintf("reader-close-leaves-handle:loader-%s", loader), impl[len(impl)-1], cs())
	}
	res.Stat(fmt.Sprintf("reader:scanners=%d", minInt(nscans, 8)))
	// documented quirk, outside the property: Scan() does not notice that the reader is closed; the descriptor
	// it opens is only released by another Close
	if r.Chance(30) {
		res.Stat("reader:scan-after-close")
		if _, err := rd.Scan(); err == nil {
			human = append(human, "scan(after close)")
			if _, err := sample("scan"); err != nil {
				return err
			}
			_ = safely(rd.Close) // returns "file already closed" for the older scanners
			human = append(human, "close(again)")
			left, err := sample("close")
			if err != nil {
				return err
			}
			if left > 0 {
				res.Violate(idx, "C19", "reader-close-leaves-handle:second-close", impl[len(impl)-1], cs())
			}
		}
	}
	if nscans >= 2 {
		res.NoteNontrivial(loader + ":" + strings.Join(steps, ","))
	}
	res.Sample(cs())
	if loader == "disk" {
		// the disk index keeps a second mapping (index.rio) that the in-memory loaders of the model do not have:
		// only the release oracle above applies
		return nil
	}
	m, err := drv.Ask(fmt.Sprintf("handles.reader gen=%d steps=%s", gen, strings.Join(steps, ",")))
	if err != nil {
		return err
	}
	res.Cmp(idx, "handles.reader", m, strings.Join(impl, " "), cs())
	return nil
}

// ---------------------------------------------------------------------------------------------
// recordio readers / writers, WAL appender / replayer: open ... close leaves nothing

func hRecordio(res *Result, r *Rng, idx int) error {
	dir, err := hTempDir("rio")
	if err != nil {
		return err
	}
	defer os.RemoveAll(dir)
	res.Cases++
	var human []string
	cs := func() string { return strings.Join(human, " ") }
	reported := map[string]bool{} // a handle that was reported as left behind is not reported again for a later object
	expect := func(what string, want int) error {
		all, err := hObserve(dir)
		if err != nil {
			return err
		}
		var items []string
		for _, it := range all {
			if !reported[it] {
				items = append(items, it)
			}
		}
		if want == 0 {
			for _, it := range items {
				reported[it] = true
			}
		}
		res.Evaluations++
		human = append(human, fmt.Sprintf("%s→%d", what, len(items)))
		if want == 0 && len(items) != 0 {
			res.Violate(idx, "C19", "recordio-close-leaves-handle:"+strings.SplitN(what, ":", 2)[0], fmt.Sprint(items), cs())
		} else if want > 0 && len(items) > want {
			res.Violate(idx, "C19", "recordio-more-handles-than-objects:"+strings.SplitN(what, ":", 2)[0], fmt.Sprint(items), cs())
		}
		return nil
	}
	comp := []int{recordio.CompressionTypeNone, recordio.CompressionTypeSnappy, recordio.CompressionTypeGZIP}[r.Intn(3)]
	nrec := r.Intn(40)
	path := filepath.Join(dir, "file.rio")
	wopts := []recordio.FileWriterOption{recordio.Path(path), recordio.CompressionType(comp), recordio.BufferSizeBytes(4096)}
	direct := false
	if r.Chance(25) {
		if ok, _ := recordio.IsDirectIOAvailable(); ok {
			direct = true
			wopts = append(wopts, recordio.DirectIO())
			res.Stat("case:recordio:directio-writer")
		}
	}
	_ = direct
	err = safely(func() error {
		w, err := recordio.NewFileWriter(wopts...)
		if err != nil {
			return err
		}
		if err := w.Open(); err != nil {
			return err
		}
		for i := 0; i < nrec; i++ {
			if _, err := w.Write(r.Bytes(r.Intn(100))); err != nil {
				return err
			}
		}
		if err := expect("writer:open", 1); err != nil {
			return err
		}
		if err := w.Close(); err != nil {
			return err
		}
		return expect("writer:closed", 0)
	})
	if err != nil {
		return fmt.Errorf("recordio writer: %w", err)
	}
	res.Stat("case:recordio:writer")
	// rewound writers and rolled-back table writers (own generator state: the cases around stay as they were)
	r2 := &Rng{s: r.s ^ 0x7265776f756e6421}
	r2.Next()
	if err := hRewoundWriters(res, r2, dir, expect); err != nil {
		return err
	}
	if err := hRolledBackTableWriter(res, r2, dir, expect); err != nil {
		return err
	}
	// sequential reader: some records, or all, or none; constructed-but-never-opened readers too
	err = safely(func() error {
		rd, err := recordio.NewFileReader(recordio.ReaderPath(path), recordio.ReaderBufferSizeBytes(4096))
		if err != nil {
			return err
		}
		mode := r.Intn(3)
		if mode > 0 {
			if err := rd.Open(); err != nil {
				return err
			}
			k := nrec
			if mode == 1 {
				k = r.Intn(nrec + 1)
			}
			for i := 0; i < k; i++ {
				if _, err := rd.ReadNext(); err != nil {
					break
				}
			}
		}
		res.Stat(fmt.Sprintf("case:recordio:file-reader:%s", []string{"never-opened", "partly-read", "read-to-eof"}[mode]))
		if err := expect("file-reader:open", 1); err != nil {
			return err
		}
		if err := rd.Close(); err != nil {
			return err
		}
		return expect("file-reader:closed", 0)
	})
	if err != nil {
		return fmt.Errorf("recordio file reader: %w", err)
	}
	err = safely(func() error {
		rd, err := recordio.NewMemoryMappedReaderWithPath(path)
		if err != nil {
			return err
		}
		if r.Chance(80) {
			if err := rd.Open(); err != nil {
				return err
			}
			off := uint64(recordio.FileHeaderSizeBytes)
			for i := 0; i < r.Intn(nrec+1); i++ {
				o, _, err := rd.SeekNext(off)
				if err != nil {
					break
				}
				off = o + 1
			}
		}
		if err := expect("mmap-reader:open", 1); err != nil {
			return err
		}
		if err := rd.Close(); err != nil {
			return err
		}
		return expect("mmap-reader:closed", 0)
	})
	if err != nil {
		return fmt.Errorf("recordio mmap reader: %w", err)
	}
	res.Stat("case:recordio:mmap-reader")
	// WAL: appender with rotations (one descriptor at any time), then the replayer
	walDir := filepath.Join(dir, "wal")
	if err := os.MkdirAll(walDir, 0o700); err != nil {
		return err
	}
	maxSize := uint64([]int{64, 200, 1000, 1 << 20}[r.Intn(4)])
	wo, err := wal.NewWriteAheadLogOptions(wal.BasePath(walDir), wal.MaximumWalFileSizeBytes(maxSize))
	if err != nil {
		return err
	}
	nwal := r.Intn(60)
	err = safely(func() error {
		w, err := wal.NewWriteAheadLog(wo)
		if err != nil {
			return err
		}
		for i := 0; i < nwal; i++ {
			if r.Chance(50) {
				err = w.Append(r.Bytes(1 + r.Intn(60)))
			} else {
				err = w.AppendSync(r.Bytes(1 + r.Intn(60)))
			}
			if err != nil {
				return err
			}
			if r.Chance(10) {
				if _, err := w.Rotate(); err != nil {
					return err
				}
			}
			if i%7 == 0 {
				if err := expect("wal-appender:open", 1); err != nil {
					return err
				}
			}
		}
		if err := w.Close(); err != nil {
			return err
		}
		return expect("wal-appender:closed", 0)
	})
	if err != nil {
		return fmt.Errorf("wal appender: %w", err)
	}
	files, _ := filepath.Glob(filepath.Join(walDir, "*.wal"))
	res.Stat(fmt.Sprintf("case:wal:files=%d", minInt(len(files), 10)))
	err = safely(func() error {
		rp, err := wal.NewReplayer(wo)
		if err != nil {
			return err
		}
		peak, count := 0, 0
		stop := -1
		if r.Chance(25) && nwal > 0 {
			stop = r.Intn(nwal) // the callback fails in the middle: the readers must still be closed
			res.Stat("case:wal:replay-aborted-by-callback")
		}
		rerr := rp.Replay(func(rec []byte) error {
			if count == stop {
				return errors.New("stop here")
			}
			count++
			if count%5 == 0 {
				if items, err := hObserve(dir); err == nil && len(items) > peak {
					peak = len(items)
				}
			}
			return nil
		})
		if stop < 0 && rerr != nil {
			return rerr
		}
		// observation, not an oracle: the replayer keeps every file it has read open until Replay returns
		if peak > res.Stats["wal:replay-peak-descriptors"] {
			res.Stats["wal:replay-peak-descriptors"] = peak
		}
		return expect("wal-replayer:returned", 0)
	})
	if err != nil {
		return fmt.Errorf("wal replayer: %w", err)
	}
	res.NoteNontrivial(fmt.Sprintf("rio:%d:%d:%d:%d", comp, nrec, nwal, maxSize))
	res.Sample(cs())
	return nil
}

// hRewoundWriters: writer lifecycles Open, Write*, (Seek back to the offset of an earlier record, Write*){1..3},
// Close - for the buffered writer with nothing, less or more written after the last rewind, for the direct-I/O
// writer (which cannot write at an unaligned offset again) with nothing written after it.  Whatever Close has to
// do about the bytes beyond the current offset, it has to release the descriptor.
func hRewoundWriters(res *Result, r *Rng, dir string, expect func(string, int) error) error {
	flavours := []string{"buffered"}
	if ok, _ := recordio.IsDirectIOAvailable(); ok {
		flavours = append(flavours, "directio")
	} else {
		res.Stat("case:recordio:rewound-writer:directio-unavailable")
	}
	for _, fl := range flavours {
		path := filepath.Join(dir, fmt.Sprintf("rewound-%s.rio", fl))
		comp := []int{recordio.CompressionTypeNone, recordio.CompressionTypeSnappy, recordio.CompressionTypeGZIP}[r.Intn(3)]
		buf := []int{16, 64, 512, 4096, 65536}[r.Intn(5)]
		maxRec := 300
		if fl == "directio" {
			buf, maxRec = 4096, 2000
		}
		wopts := []recordio.FileWriterOption{recordio.Path(path), recordio.CompressionType(comp), recordio.BufferSizeBytes(buf)}
		if fl == "directio" {
			wopts = append(wopts, recordio.DirectIO())
		}
		nrec := 1 + r.Intn(20)
		seeks := 1 + r.Intn(3)
		after := r.Intn(3) // after the last rewind: 0 nothing, 1 something short, 2 anything
		if fl == "directio" {
			seeks, after = 1, 0
		}
		what := fmt.Sprintf("rewound-%s-writer:comp=%d,buf=%d,recs=%d,seeks=%d,after=%d", fl, comp, buf, nrec, seeks, after)
		err := safely(func() error {
			w, err := recordio.NewFileWriter(wopts...)
			if err != nil {
				return err
			}
			if err := w.Open(); err != nil {
				return err
			}
			var offs []uint64 // offsets of the records that survive
			write := func(p []byte) error {
				off, err := w.Write(p)
				if err == nil {
					offs = append(offs, off)
				}
				return err
			}
			genRec := func(max int) []byte {
				if r.Chance(8) {
					return nil
				}
				return r.Bytes(r.Intn(max + 1))
			}
			for i := 0; i < nrec; i++ {
				if err := write(genRec(maxRec)); err != nil {
					return err
				}
			}
			highWater := w.Size()
			for k := 0; k < seeks; k++ {
				i := r.Intn(len(offs))
				if err := w.Seek(offs[i]); err != nil {
					return fmt.Errorf("seek to the record boundary %d: %w", offs[i], err)
				}
				offs = offs[:i]
				n := 0
				switch {
				case k < seeks-1:
					n = r.Intn(3)
				case after == 1:
					n = 1
				case after == 2:
					n = r.Intn(6)
				}
				for j := 0; j < n || len(offs) == 0 && k < seeks-1; j++ { // a later rewind needs a record to go back to
					max := maxRec
					if k == seeks-1 && after == 1 {
						max = 4
					}
					if err := write(genRec(max)); err != nil {
						return err
					}
				}
				if w.Size() > highWater {
					highWater = w.Size()
				}
			}
			if w.Size() < highWater {
				res.Stat("case:recordio:rewound-writer:" + fl + ":closed-below-high-water-mark")
			} else {
				res.Stat("case:recordio:rewound-writer:" + fl + ":closed-at-high-water-mark")
			}
			res.Stat(fmt.Sprintf("case:recordio:rewound-writer:seeks=%d", seeks))
			if err := expect(what+":open", 1); err != nil {
				return err
			}
			if err := w.Close(); err != nil {
				return err
			}
			return expect(what+":closed", 0)
		})
		if err != nil {
			return fmt.Errorf("recordio rewound writer (%s): %w", what, err)
		}
	}
	return nil
}

type hFailingIndexWriter struct {
	rProto.WriterI
	failAt map[int]bool
	calls  int
}

func (w *hFailingIndexWriter) Write(m proto.Message) (uint64, error) {
	k := w.calls
	w.calls++
	if w.failAt[k] {
		return 0, errors.New("injected index write fault")
	}
	return w.WriterI.Write(m)
}

// hRolledBackTableWriter: a table writer whose index write fails for one or two keys (hook): WriteNext rolls the
// data file back with Seek; the writer is closed after that, with nothing, less or more written after the
// roll-back.  Close releases index, data and metadata descriptors.
func hRolledBackTableWriter(res *Result, r *Rng, dir string, expect func(string, int) error) error {
	path := filepath.Join(dir, "rolled-back-table")
	if err := os.MkdirAll(path, 0o700); err != nil {
		return err
	}
	nkeys := 1 + r.Intn(12)
	failAt := map[int]bool{r.Intn(nkeys): true}
	if r.Chance(50) {
		failAt[nkeys-1] = true // the last WriteNext is the one rolled back
	}
	var pos []string
	for i := 0; i < nkeys; i++ {
		if failAt[i] {
			pos = append(pos, strconv.Itoa(i))
		}
	}
	what := fmt.Sprintf("table-writer-after-rollback:keys=%d,index-fault-at=%s", nkeys, strings.Join(pos, "+"))
	err := safely(func() error {
		w, err := sstables.NewSSTableStreamWriter(sstables.WriteBasePath(path), sstables.WithKeyComparator(skiplist.BytesComparator{}),
			sstables.WriteBufferSizeBytes([]int{64, 4096, 65536}[r.Intn(3)]))
		if err != nil {
			return err
		}
		if err := w.Open(); err != nil {
			return err
		}
		w.VerifWrapWriters(nil, func(i rProto.WriterI) rProto.WriterI { return &hFailingIndexWriter{WriterI: i, failAt: failAt} })
		rolledBack, lastRolledBack := 0, false
		for i := 0; i < nkeys; i++ {
			v := r.Bytes(1 + r.Intn(60))
			if failAt[i] && r.Chance(60) {
				v = r.Bytes(100 + r.Intn(3000))
			}
			err := w.WriteNext([]byte(fmt.Sprintf("key-%06d", i)), v)
			if failAt[i] {
				if err == nil {
					return fmt.Errorf("WriteNext %d: the injected index fault was not reported", i)
				}
				rolledBack++
			} else if err != nil {
				return fmt.Errorf("WriteNext %d: %w", i, err)
			}
			lastRolledBack = failAt[i]
		}
		res.StatN("case:table-writer:rolled-back-writes", rolledBack)
		if lastRolledBack {
			res.Stat("case:table-writer:closed-right-after-rollback")
		} else {
			res.Stat("case:table-writer:closed-after-rollback-and-more-writes")
		}
		if err := expect(what+":open", 3); err != nil {
			return err
		}
		if err := w.Close(); err != nil {
			return err
		}
		return expect(what+":closed", 0)
	})
	if err != nil {
		return fmt.Errorf("rolled-back table writer (%s): %w", what, err)
	}
	return nil
}

func handlesMinInt(a, b int) int {
	if a < b {
		return a
	}
	return b
}

// ---------------------------------------------------------------------------------------------
// additional cases, interleaved by index (idx%4 == 1: database lifecycles that start from a crash-like directory
// state; idx%4 == 2: error paths).  They are runtime oracles only (no model) and draw from a second generator.

const hxSeedMix = 0x68616e646c657332

func hxExtra(res *Result, seed uint64, idx int) error {
	if idx%4 != 1 && idx%4 != 2 {
		return nil
	}
	r := NewRng(seed^hxSeedMix, uint64(idx))
	hBaseFlusher, hBaseTicker = hGoroutinesAbs()
	if idx%4 == 1 {
		return hCrashOpen(res, r, idx, idx/4)
	}
	return hErrPath(res, r, idx, idx/4)
}

type hxCase struct {
	res      *Result
	idx      int
	sig      string
	human    []string
	reported int // a handle that stays is seen by every later sample of the case: only the first one is reported
	devFull0 int // descriptors of /dev/full the process had when the case began
}

func (c *hxCase) cs() string { return strings.Join(c.human, " ") }

func (c *hxCase) note(f string, a ...interface{}) { c.human = append(c.human, fmt.Sprintf(f, a...)) }

func (c *hxCase) violate(what, detail string) {
	c.reported++
	if c.reported > 1 {
		c.res.Stat("further-failing-samples-in-a-reported-case")
		return
	}
	c.res.Violate(c.idx, "C19", c.sig, what+": "+detail, c.cs())
}

func hxCopyDir(src, dst string) error {
	return filepath.Walk(src, func(p string, info os.FileInfo, err error) error {
		if err != nil {
			return err
		}
		rel, err := filepath.Rel(src, p)
		if err != nil {
			return err
		}
		t := filepath.Join(dst, rel)
		if info.IsDir() {
			return os.MkdirAll(t, 0o700)
		}
		b, err := os.ReadFile(p)
		if err != nil {
			return err
		}
		return os.WriteFile(t, b, 0o600)
	})
}

var hxTableDirRe = regexp.MustCompile(`^sstable_([0-9]{15})$`)

// hxTableGens: generations of the table directories in a database directory, ascending
func hxTableGens(dir string) []int {
	var out []int
	ents, _ := os.ReadDir(dir)
	for _, e := range ents {
		if m := hxTableDirRe.FindStringSubmatch(e.Name()); m != nil && e.IsDir() {
			g, _ := strconv.Atoi(m[1])
			out = append(out, g)
		}
	}
	sort.Ints(out)
	return out
}

// hxWalNums: numbers of the log files in <dir>/wal, ascending
func hxWalNums(dir string) []int {
	var out []int
	ents, _ := os.ReadDir(filepath.Join(dir, simpledb.WriteAheadFolder))
	for _, e := range ents {
		if strings.HasSuffix(e.Name(), ".wal") {
			if n, err := strconv.Atoi(strings.TrimSuffix(e.Name(), ".wal")); err == nil {
				out = append(out, n)
			}
		}
	}
	sort.Ints(out)
	return out
}

func hxTablePath(dir string, gen int) string {
	return filepath.Join(dir, fmt.Sprintf(simpledb.SSTablePattern, gen))
}

func hxWalPath(dir string, n int) string {
	return filepath.Join(dir, simpledb.WriteAheadFolder, fmt.Sprintf("%06d.wal", n))
}

// hxHeaderBytes: the first k bytes (k <= 8) of a RecordIO file as the real writer produces it
func hxHeaderBytes(scratch string, comp int, k int) ([]byte, error) {
	p := filepath.Join(scratch, fmt.Sprintf("header-%d.rio", comp))
	if _, err := os.Stat(p); err != nil {
		w, err := recordio.NewFileWriter(recordio.Path(p), recordio.CompressionType(comp))
		if err != nil {
			return nil, err
		}
		if err := w.Open(); err != nil {
			return nil, err
		}
		if err := w.Close(); err != nil {
			return nil, err
		}
	}
	b, err := os.ReadFile(p)
	if err != nil {
		return nil, err
	}
	if len(b) != recordio.FileHeaderSizeBytes {
		return nil, fmt.Errorf("a record-less RecordIO file has %d bytes", len(b))
	}
	return b[:k], nil
}

var hxCrashClasses = []string{
	"wal-last-file-empty",
	"wal-last-file-short",
	"wal-only-file-short",
	"wal-older-file-short",
	"table-only-empty-index",
	"table-index-data-headers-no-meta",
	"table-empty-meta",
	"table-half-removed",
	"table-empty-dir",
	"compaction-dir-unflagged",
	"compaction-dir-unreadable-flag",
	"compaction-dir-flagged",
	"table-complete-no-meta",
	"combined",
}

// hxBuildImage: a database with some flushed tables and some acknowledged mutations in its log (written
// synchronously), copied while it runs (a crash at an operation boundary) or after a clean Close.
func hxBuildImage(c *hxCase, r *Rng, root string, minTables int) (string, error) {
	live := filepath.Join(root, "live")
	img := filepath.Join(root, "crashed")
	if err := os.MkdirAll(live, 0o700); err != nil {
		return "", err
	}
	d, err := simpledb.NewSimpleDB(live, simpledb.DisableCompactions(), simpledb.MemstoreSizeBytes(1<<40))
	if err != nil {
		return "", err
	}
	if err := d.Open(); err != nil {
		return "", err
	}
	mutate := func() error {
		k := string([]byte{byte('a' + r.Intn(8))})
		if r.Chance(20) {
			return d.Delete(k)
		}
		return d.Put(k, fmt.Sprintf("%x", r.Bytes(1+r.Intn(20))))
	}
	nt := minTables + r.Intn(4-minTables)
	for t := 0; t < nt; t++ {
		if err := d.Put(string([]byte{byte('a' + r.Intn(8))}), fmt.Sprintf("%x", r.Bytes(1+r.Intn(20)))); err != nil {
			return "", err
		}
		for i := r.Intn(3); i > 0; i-- {
			if err := mutate(); err != nil {
				return "", err
			}
		}
		if err := d.VerifRotate(); err != nil {
			return "", err
		}
		d.VerifWaitFlushIdle()
	}
	tail := r.Intn(5)
	for i := 0; i < tail; i++ {
		if err := mutate(); err != nil {
			return "", err
		}
	}
	running := r.Chance(60)
	if running {
		if err := hxCopyDir(live, img); err != nil {
			return "", err
		}
	}
	if err := d.Close(); err != nil {
		return "", err
	}
	if !running {
		if err := hxCopyDir(live, img); err != nil {
			return "", err
		}
	}
	items, err := hObserve(live)
	if err != nil {
		return "", err
	}
	f, t := hWaitNoGoroutines()
	c.res.Evaluations++
	if len(items) > 0 || f+t > 0 {
		c.violate("the database the image was copied from, after Close", fmt.Sprintf("%v flusher=%d ticker=%d", items, f, t))
	}
	hBaseFlusher, hBaseTicker = hGoroutinesAbs()
	how := "closed"
	if running {
		how = "running"
		c.res.Stat("crash-state:image-of-running-db")
	} else {
		c.res.Stat("crash-state:image-of-closed-db")
	}
	c.note("image(%s,tables=%v,wal=%v,unflushed=%d)", how, hxTableGens(img), hxWalNums(img), tail)
	return img, nil
}

// hxWriteFlag writes a readable compaction_successful file
func hxWriteFlag(path string, meta *dbproto.CompactionMetadata) error {
	w, err := rProto.NewWriter(rProto.Path(path), rProto.WriteBufferSizeBytes(4096))
	if err != nil {
		return err
	}
	if err := w.Open(); err != nil {
		return err
	}
	if _, err := w.Write(meta); err != nil {
		return err
	}
	return w.Close()
}

// hxMutateImage turns the image into the crash state of the class.  mustOpen: the recovery code documents the
// state as one it gets over (Open has to succeed); otherwise only the handles are judged.
func hxMutateImage(c *hxCase, r *Rng, class string, img, scratch string) (mustOpen bool, err error) {
	gens := hxTableGens(img)
	nextGen := 1
	if len(gens) > 0 {
		nextGen = gens[len(gens)-1] + 1
	}
	nextGen += r.Intn(2)
	wals := hxWalNums(img)
	nextWal := 0
	if len(wals) > 0 {
		nextWal = wals[len(wals)-1] + 1
	}
	walDir := filepath.Join(img, simpledb.WriteAheadFolder)
	short := func(k int) ([]byte, error) { // k bytes: the beginning of a real header, or anything
		if r.Chance(70) {
			return hxHeaderBytes(scratch, recordio.CompressionTypeSnappy, k)
		}
		return r.Bytes(k), nil
	}
	headerOnly := func(p string) error {
		b, err := hxHeaderBytes(scratch, recordio.CompressionTypeNone, 8)
		if err != nil {
			return err
		}
		return os.WriteFile(p, b, 0o600)
	}
	switch class {
	case "wal-last-file-empty":
		if err := os.MkdirAll(walDir, 0o700); err != nil {
			return false, err
		}
		c.note("+wal/%06d.wal(0B)", nextWal)
		return true, os.WriteFile(hxWalPath(img, nextWal), nil, 0o600)
	case "wal-last-file-short":
		if err := os.MkdirAll(walDir, 0o700); err != nil {
			return false, err
		}
		k := 1 + r.Intn(7)
		b, err := short(k)
		if err != nil {
			return false, err
		}
		c.note("+wal/%06d.wal(%dB)", nextWal, k)
		return true, os.WriteFile(hxWalPath(img, nextWal), b, 0o600)
	case "wal-only-file-short":
		// the process died right after Open created its first log file (an earlier recovery had emptied the folder)
		if err := os.RemoveAll(walDir); err != nil {
			return false, err
		}
		if err := os.MkdirAll(walDir, 0o700); err != nil {
			return false, err
		}
		k := r.Intn(8)
		b, err := short(k)
		if err != nil {
			return false, err
		}
		c.note("wal={000000.wal(%dB)}", k)
		return true, os.WriteFile(hxWalPath(img, 0), b, 0o600)
	case "wal-older-file-short":
		// not a state a crash of this code produces (only the newest file can lack its header): Open may refuse
		if err := os.MkdirAll(walDir, 0o700); err != nil {
			return false, err
		}
		k := r.Intn(8)
		b, err := short(k)
		if err != nil {
			return false, err
		}
		if err := os.WriteFile(hxWalPath(img, nextWal), b, 0o600); err != nil {
			return false, err
		}
		b8, err := hxHeaderBytes(scratch, recordio.CompressionTypeSnappy, 8)
		if err != nil {
			return false, err
		}
		c.note("+wal/%06d.wal(%dB) +wal/%06d.wal(header)", nextWal, k, nextWal+1)
		return false, os.WriteFile(hxWalPath(img, nextWal+1), b8, 0o600)
	case "table-only-empty-index":
		t := hxTablePath(img, nextGen)
		if err := os.MkdirAll(t, 0o700); err != nil {
			return false, err
		}
		k := 0
		if r.Chance(40) {
			k = 1 + r.Intn(7)
		}
		b, err := short(k)
		if err != nil {
			return false, err
		}
		c.note("+table %d {index.rio(%dB)}", nextGen, k)
		if err := os.WriteFile(filepath.Join(t, sstables.IndexFileName), b, 0o600); err != nil {
			return false, err
		}
		switch r.Intn(3) { // the data file: not there yet, created, created with its header
		case 1:
			c.note("+data.rio(0B)")
			return true, os.WriteFile(filepath.Join(t, sstables.DataFileName), nil, 0o600)
		case 2:
			c.note("+data.rio(header)")
			return true, headerOnly(filepath.Join(t, sstables.DataFileName))
		}
		return true, nil
	case "table-index-data-headers-no-meta":
		// loads as an empty table of the metadata-less legacy format and is kept
		t := hxTablePath(img, nextGen)
		if err := os.MkdirAll(t, 0o700); err != nil {
			return false, err
		}
		c.note("+table %d {index.rio(header) data.rio(header)}", nextGen)
		if err := headerOnly(filepath.Join(t, sstables.IndexFileName)); err != nil {
			return false, err
		}
		return true, headerOnly(filepath.Join(t, sstables.DataFileName))
	case "table-empty-meta":
		t := hxTablePath(img, nextGen)
		if r.Chance(50) {
			// a complete index and data file, the metadata still empty (killed before the writer's Close wrote it)
			if _, err := hWriteTable(t, 1+r.Intn(20), r); err != nil {
				return false, err
			}
			_ = os.Remove(filepath.Join(t, sstables.BloomFileName))
			c.note("+table %d {index.rio data.rio meta.pb.bin(0B)}", nextGen)
		} else {
			if err := os.MkdirAll(t, 0o700); err != nil {
				return false, err
			}
			if err := headerOnly(filepath.Join(t, sstables.IndexFileName)); err != nil {
				return false, err
			}
			if err := headerOnly(filepath.Join(t, sstables.DataFileName)); err != nil {
				return false, err
			}
			c.note("+table %d {index.rio(header) data.rio(header) meta.pb.bin(0B)}", nextGen)
		}
		return true, os.WriteFile(filepath.Join(t, sstables.MetaFileName), nil, 0o600)
	case "table-half-removed":
		// a table whose removal (recovery of a finished compaction, or of an unfinished flush) was interrupted
		g := nextGen
		if len(gens) > 0 && r.Chance(70) {
			g = gens[r.Intn(len(gens))]
		} else if _, err := hWriteTable(hxTablePath(img, g), 1+r.Intn(20), r); err != nil {
			return false, err
		}
		t := hxTablePath(img, g)
		rm := func(names ...string) error {
			for _, n := range names {
				if err := os.Remove(filepath.Join(t, n)); err != nil && !os.IsNotExist(err) {
					return err
				}
			}
			return nil
		}
		switch v := r.Intn(4); v {
		case 0:
			c.note("table %d -index.rio", g)
			return false, rm(sstables.IndexFileName)
		case 1:
			c.note("table %d -index.rio -data.rio", g)
			return false, rm(sstables.IndexFileName, sstables.DataFileName)
		case 2:
			c.note("table %d -index.rio -data.rio -meta.pb.bin", g)
			return true, rm(sstables.IndexFileName, sstables.DataFileName, sstables.MetaFileName)
		default:
			c.note("table %d -meta.pb.bin -bloom.bf.gz", g)
			return false, rm(sstables.MetaFileName, sstables.BloomFileName)
		}
	case "table-empty-dir":
		c.note("+table %d {}", nextGen)
		return true, os.MkdirAll(hxTablePath(img, nextGen), 0o700)
	case "compaction-dir-unflagged":
		cd := filepath.Join(img, fmt.Sprintf("%s%d", simpledb.SSTableCompactionPathPrefix, 100000+r.Intn(900000)))
		if err := os.MkdirAll(cd, 0o700); err != nil {
			return false, err
		}
		switch r.Intn(4) {
		case 0:
			c.note("+%s {}", filepath.Base(cd))
		case 1:
			c.note("+%s {data.rio(junk)}", filepath.Base(cd))
			return true, os.WriteFile(filepath.Join(cd, sstables.DataFileName), r.Bytes(1+r.Intn(40)), 0o600)
		case 2:
			c.note("+%s {complete table, no flag}", filepath.Base(cd))
			_, err := hWriteTable(cd, 1+r.Intn(30), r)
			return true, err
		default:
			c.note("+%s {index.rio(header) data.rio(header) meta.pb.bin(0B)}", filepath.Base(cd))
			if err := headerOnly(filepath.Join(cd, sstables.IndexFileName)); err != nil {
				return false, err
			}
			if err := headerOnly(filepath.Join(cd, sstables.DataFileName)); err != nil {
				return false, err
			}
			return true, os.WriteFile(filepath.Join(cd, sstables.MetaFileName), nil, 0o600)
		}
		return true, nil
	case "compaction-dir-unreadable-flag":
		cd := filepath.Join(img, fmt.Sprintf("%s%d", simpledb.SSTableCompactionPathPrefix, 100000+r.Intn(900000)))
		if _, err := hWriteTable(cd, 1+r.Intn(30), r); err != nil {
			return false, err
		}
		flag := filepath.Join(cd, simpledb.CompactionFinishedSuccessfulFileName)
		switch r.Intn(4) {
		case 0:
			c.note("+%s {table, flag(0B)}", filepath.Base(cd))
			return true, os.WriteFile(flag, nil, 0o600)
		case 1:
			k := 1 + r.Intn(7)
			b, err := short(k)
			if err != nil {
				return false, err
			}
			c.note("+%s {table, flag(%dB)}", filepath.Base(cd), k)
			return true, os.WriteFile(flag, b, 0o600)
		case 2:
			c.note("+%s {table, flag(header)}", filepath.Base(cd))
			return true, headerOnly(flag)
		default:
			b, err := hxHeaderBytes(scratch, recordio.CompressionTypeNone, 8)
			if err != nil {
				return false, err
			}
			c.note("+%s {table, flag(header+junk)}", filepath.Base(cd))
			return true, os.WriteFile(flag, append(append([]byte{}, b...), r.Bytes(1+r.Intn(30))...), 0o600)
		}
	case "compaction-dir-flagged":
		// a finished compaction whose result was not moved into place yet; the inputs untouched or partly removed
		if len(gens) == 0 {
			return false, fmt.Errorf("flagged compaction needs a table")
		}
		from := r.Intn(len(gens))
		inputs := gens[from:]
		name := fmt.Sprintf("%s%d", simpledb.SSTableCompactionPathPrefix, 100000+r.Intn(900000))
		cd := filepath.Join(img, name)
		if _, err := hWriteTable(cd, 1+r.Intn(30), r); err != nil {
			return false, err
		}
		meta := &dbproto.CompactionMetadata{WritePath: name, ReplacementPath: fmt.Sprintf(simpledb.SSTablePattern, inputs[0])}
		for _, g := range inputs {
			meta.SstablePaths = append(meta.SstablePaths, fmt.Sprintf(simpledb.SSTablePattern, g))
		}
		if err := hxWriteFlag(filepath.Join(cd, simpledb.CompactionFinishedSuccessfulFileName), meta); err != nil {
			return false, err
		}
		c.note("+%s {table, flag(inputs=%v)}", name, inputs)
		if r.Chance(50) { // the recovery that died had begun to delete: newest-numbered inputs first or last, partly
			for i, g := range inputs {
				if i == 0 {
					continue
				}
				switch r.Intn(3) {
				case 0:
					c.note("-table %d", g)
					if err := os.RemoveAll(hxTablePath(img, g)); err != nil {
						return false, err
					}
				case 1:
					c.note("table %d -index.rio", g)
					_ = os.Remove(filepath.Join(hxTablePath(img, g), sstables.IndexFileName))
				}
			}
		}
		return true, nil
	case "table-complete-no-meta":
		// hand-made (recovery cannot leave it any more): kept as a legacy table; only the handles are judged
		g := nextGen
		if len(gens) > 0 && r.Chance(50) {
			g = gens[r.Intn(len(gens))]
		} else if _, err := hWriteTable(hxTablePath(img, g), 1+r.Intn(20), r); err != nil {
			return false, err
		}
		c.note("table %d -meta.pb.bin", g)
		if err := os.Remove(filepath.Join(hxTablePath(img, g), sstables.MetaFileName)); err != nil {
			return false, err
		}
		return false, nil
	case "combined":
		must := true
		for _, cl := range []string{"wal-last-file-short", "table-only-empty-index", "compaction-dir-unflagged", "table-empty-meta"} {
			if r.Chance(70) {
				m, err := hxMutateImage(c, r, cl, img, scratch)
				if err != nil {
					return false, err
				}
				must = must && m
			}
		}
		return must, nil
	}
	return false, fmt.Errorf("unknown crash-state class %q", class)
}

// hCrashOpen: Open on a crash-like directory state, some work, Close (twice over: the recovered directory is opened
// once more).  Judged: descriptors + mappings under the directory <= live tables + 1 at every quiescent point while
// open, none after Close or after a failed Open, library goroutines <= 1 each while open and none afterwards; Open
// succeeds for the states the recovery code documents as recoverable.
func hCrashOpen(res *Result, r *Rng, idx int, ord int) error {
	root, err := hTempDir("crash")
	if err != nil {
		return err
	}
	defer os.RemoveAll(root)
	class := hxCrashClasses[ord%len(hxCrashClasses)]
	res.Cases++
	res.Stat("case:crash-state:" + class)
	c := &hxCase{res: res, idx: idx, sig: "open-on-crash-state:" + class}
	minTables := 0
	if class == "compaction-dir-flagged" {
		minTables = 1
	}
	img, err := hxBuildImage(c, r, root, minTables)
	if err != nil {
		return fmt.Errorf("crash-state image: %w", err)
	}
	mustOpen, err := hxMutateImage(c, r, class, img, root)
	if err != nil {
		return fmt.Errorf("crash-state %s: %w", class, err)
	}
	rounds := 1
	if r.Chance(50) {
		rounds = 2
	}
	for round := 0; round < rounds; round++ {
		opts := []simpledb.ExtraOption{
			simpledb.MemstoreSizeBytes(uint64([]int{1 << 30, 1 << 30, 200, 2000}[r.Intn(4)])),
			simpledb.CompactionFileThreshold(r.Intn(3)),
			simpledb.CompactionMaxSizeBytes(uint64([]int{1 << 30, 1 << 30, 5000}[r.Intn(3)])),
			simpledb.ReadBufferSizeBytes(4096), simpledb.WriteBufferSizeBytes(4096),
		}
		mode := "off"
		if r.Chance(50) {
			mode = "idle"
			opts = append(opts, simpledb.CompactionRunInterval(time.Hour))
		} else {
			opts = append(opts, simpledb.DisableCompactions())
		}
		if r.Chance(20) {
			opts = append(opts, simpledb.EnableAsyncWAL())
			mode += ",async"
		}
		d, err := simpledb.NewSimpleDB(img, opts...)
		if err != nil {
			return err
		}
		operr := safely(d.Open)
		c.note("open(%s)=%s", mode, hxErrWord(operr))
		nothingOpen := func(when string) error {
			items, err := hObserve(img)
			if err != nil {
				return err
			}
			f, t := hWaitNoGoroutines()
			res.Evaluations++
			if len(items) > 0 {
				c.violate(when, fmt.Sprintf("descriptors/mappings under the directory: %v", items))
			}
			if f+t > 0 {
				c.violate(when, fmt.Sprintf("%d flusher, %d compaction goroutines", f, t))
			}
			return nil
		}
		if operr != nil {
			res.Stat("crash-state:open-failed:" + class)
			res.Evaluations++
			if mustOpen || round > 0 {
				c.violate("Open failed", operr.Error())
			}
			if err := nothingOpen("after the failed Open"); err != nil {
				return err
			}
			_ = safely(d.Close) // refuses (never opened); must not open anything either
			if err := nothingOpen("after Close on the database whose Open had failed"); err != nil {
				return err
			}
			break
		}
		res.Stat("crash-state:open-ok:" + class)
		bound := func(after string) error {
			d.VerifWaitFlushIdle()
			names, _, _, _ := d.VerifTables()
			items, err := hObserve(img)
			if err != nil {
				return err
			}
			f, t := hGoroutines()
			res.Evaluations++
			if len(items) > len(names)+hQuiescentConst {
				c.violate("after "+after, fmt.Sprintf("%d live tables, %d descriptors+mappings: %v", len(names), len(items), items))
			}
			if f > 1 || t > 1 {
				c.violate("after "+after, fmt.Sprintf("%d flusher, %d compaction goroutines", f, t))
			}
			return nil
		}
		if err := bound("Open"); err != nil {
			return err
		}
		nops := 3 + r.Intn(8)
		for op := 0; op < nops; op++ {
			k := string([]byte{byte('a' + r.Intn(8))})
			what := ""
			switch x := r.Intn(100); {
			case x < 40:
				v := fmt.Sprintf("%x", r.Bytes(1+r.Intn(60)))
				what = "put=" + hxErrWord(d.Put(k, v))
			case x < 50:
				what = "del=" + hxErrWord(d.Delete(k))
			case x < 65:
				_, err := d.Get(k)
				if err != nil && !errors.Is(err, simpledb.ErrNotFound) {
					what = "get=err"
				} else {
					what = "get"
				}
			case x < 85:
				what = "rotate=" + hxErrWord(d.VerifRotate())
			default:
				d.VerifWaitFlushIdle()
				cerr := safely(func() error { _, _, e := d.VerifCompactOnce(); return e })
				what = "compact=" + hxErrWord(cerr)
				if cerr != nil {
					res.Stat("crash-state:compaction-failed:" + class)
				}
			}
			c.note("%s", what)
			if err := bound(what); err != nil {
				return err
			}
		}
		cerr := safely(d.Close)
		c.note("close=%s", hxErrWord(cerr))
		if cerr != nil {
			res.Stat("crash-state:close-failed:" + class)
		}
		if err := nothingOpen("after Close"); err != nil {
			return err
		}
	}
	res.NoteNontrivial("crash:" + c.cs())
	res.Sample(c.cs())
	return nil
}

func hxErrWord(err error) string {
	if err == nil {
		return "ok"
	}
	return "err"
}

// ---------------------------------------------------------------------------------------------
// error paths: a constructor / Open / Scan / compaction / Close that FAILS has to release what it had opened.
// One family per repaired leak (the commit that repaired it in brackets); what is damaged / missing / unwritable,
// which loader, which entry point and the sizes are drawn per case.

var hxErrFamilies = []string{
	"writer-close-fails",           // [855b3b1] recordio writer: final flush fails
	"index-loader-open-fails",      // [ef70dba] index.rio shorter than a header, in-memory loaders
	"scan-open-fails",              // [8cb5d77] Scan when data.rio lost its header after the load
	"reader-load-later-step-fails", // [5d579b7] NewSSTableReader failing after index / data were opened
	"table-writer-open-fails",      // [3b4867f] SSTableStreamWriter.Open failing at the 2nd / 3rd file
	"wal-writer-open-fails",        // [a9ebc7d] WAL appender: the next file's writer fails to open
	"compaction-flag-open-fails",   // [a7ed007] the compaction_successful writer fails to open
	"compaction-input-fails",       // [bfb8835] a compaction input that does not load
	"db-open-fails-half-way",       // [edfc7e7] Open failing after some tables were loaded
	"db-close-fails-at-rotation",   // [b2bab73] Close whose WAL rotation fails
	"reader-file-option",           // [2af272a] NewFileReader(ReaderFile(f)) and friends take over f
	"wal-replayer-ctor-fails",      // [9faa0b1] NewWriteAheadLog: appender created, replayer refused
}

func hxDevFullCount() int {
	n := 0
	ents, _ := os.ReadDir("/proc/self/fd")
	for _, e := range ents {
		if t, err := os.Readlink("/proc/self/fd/" + e.Name()); err == nil && t == "/dev/full" {
			n++
		}
	}
	return n
}

// observe: descriptors + mappings under dir, plus the descriptors of /dev/full opened since the case began
func (c *hxCase) observe(dir string) ([]string, error) {
	items, err := hObserve(dir)
	if err != nil {
		return nil, err
	}
	for i := hxDevFullCount() - c.devFull0; i > 0; i-- {
		items = append(items, "fd:/dev/full")
	}
	return items, nil
}

// atMost: at most n descriptors + mappings now (n == 0: also no library goroutine)
func (c *hxCase) atMost(dir string, n int, when string) error {
	items, err := c.observe(dir)
	if err != nil {
		return err
	}
	c.res.Evaluations++
	c.note("[%s:%d]", when, len(items))
	if len(items) > n {
		c.violate(when, fmt.Sprintf("%d descriptors/mappings (at most %d expected): %v", len(items), n, items))
	}
	if n == 0 {
		if f, t := hWaitNoGoroutines(); f+t > 0 {
			c.violate(when, fmt.Sprintf("%d flusher, %d compaction goroutines", f, t))
		}
	}
	return nil
}

func hxLoader(r *Rng, inMemoryOnly bool) (string, []sstables.ReadOption) {
	names := []string{"default", "slice", "skiplist", "map", "disk"}
	if inMemoryOnly {
		names = names[:4]
	}
	switch l := names[r.Intn(len(names))]; l {
	case "slice":
		return l, []sstables.ReadOption{sstables.ReadIndexLoader(&sstables.SliceKeyIndexLoader{ReadBufferSize: 4096})}
	case "skiplist":
		return l, []sstables.ReadOption{sstables.ReadIndexLoader(&sstables.SkipListIndexLoader{KeyComparator: skiplist.BytesComparator{}, ReadBufferSize: 4096})}
	case "map":
		return l, []sstables.ReadOption{sstables.ReadIndexLoader(&sstables.MapKeyIndexLoader[[20]byte]{ReadBufferSize: 4096, Mapper: &sstables.Byte20KeyMapper{}})}
	case "disk":
		return l, []sstables.ReadOption{sstables.ReadIndexLoader(&sstables.DiskIndexLoader{})}
	default:
		return l, nil
	}
}

// hxFlipLastByte changes the last byte of the file in place (no truncation: the file may be mapped)
func hxFlipLastByte(p string) error {
	f, err := os.OpenFile(p, os.O_RDWR, 0)
	if err != nil {
		return err
	}
	defer f.Close()
	st, err := f.Stat()
	if err != nil {
		return err
	}
	if st.Size() == 0 {
		return fmt.Errorf("%s is empty", p)
	}
	b := make([]byte, 1)
	if _, err := f.ReadAt(b, st.Size()-1); err != nil {
		return err
	}
	b[0] ^= 0xff
	_, err = f.WriteAt(b, st.Size()-1)
	return err
}

// hxDamageTable makes a complete table directory unloadable although its metadata is there (so that recovery
// does not take it for an unfinished flush); unless allowDataCut none of these touches data.rio's size (it may be mapped)
func hxDamageTable(c *hxCase, r *Rng, t string, allowDataCut bool) error {
	n := 3
	if allowDataCut {
		n = 4
	}
	switch r.Intn(n) {
	case 0:
		c.note("damage(%s:data.rio last byte flipped)", filepath.Base(t))
		return hxFlipLastByte(filepath.Join(t, sstables.DataFileName))
	case 1:
		k := r.Intn(8)
		c.note("damage(%s:index.rio cut to %dB)", filepath.Base(t), k)
		return os.Truncate(filepath.Join(t, sstables.IndexFileName), int64(k))
	case 2:
		// (a filter file that does not parse is no damage: the filter library drops the error, the table loads without)
		c.note("damage(%s:meta.pb.bin unparseable)", filepath.Base(t))
		return os.WriteFile(filepath.Join(t, sstables.MetaFileName), bytes.Repeat([]byte{0xff}, 12+r.Intn(8)), 0o600)
	default:
		k := 1 + r.Intn(7)
		c.note("damage(%s:data.rio cut to %dB)", filepath.Base(t), k)
		return os.Truncate(filepath.Join(t, sstables.DataFileName), int64(k))
	}
}

// hxTablesDb: a database directory with k complete tables (generations 1..k), written with the table writer
func hxTablesDb(r *Rng, dbDir string, k, maxKeys int) error {
	for g := 1; g <= k; g++ {
		if _, err := hWriteTable(hxTablePath(dbDir, g), 1+r.Intn(maxKeys), r); err != nil {
			return err
		}
	}
	return nil
}

func hErrPath(res *Result, r *Rng, idx int, ord int) error {
	dir, err := hTempDir("err")
	if err != nil {
		return err
	}
	defer os.RemoveAll(dir)
	fam := hxErrFamilies[ord%len(hxErrFamilies)]
	res.Cases++
	res.Stat("case:error-path:" + fam)
	c := &hxCase{res: res, idx: idx, sig: "error-path:" + fam, devFull0: hxDevFullCount()}
	outcome := func(what string, err error) { // which branch the library took goes into the evidence, it is not judged
		w := what + "=" + hxErrWord(err)
		c.note("%s", w)
		res.Stat("error-path:" + fam + ":" + w)
	}
	directIO, _ := recordio.IsDirectIOAvailable()
	switch fam {
	case "writer-close-fails":
		variant := []string{"devfull-buffered", "directio-rewound", "devfull-directio"}[r.Intn(3)]
		if !directIO {
			variant = "devfull-buffered"
		}
		comp := []int{recordio.CompressionTypeNone, recordio.CompressionTypeSnappy, recordio.CompressionTypeGZIP}[r.Intn(3)]
		buf := []int{16, 512, 4096, 65536}[r.Intn(4)]
		path := filepath.Join(dir, "w.rio")
		wopts := []recordio.FileWriterOption{recordio.Path(path), recordio.CompressionType(comp)}
		if variant != "devfull-buffered" {
			buf = 4096
			wopts = append(wopts, recordio.DirectIO())
		}
		wopts = append(wopts, recordio.BufferSizeBytes(buf))
		if variant != "directio-rewound" {
			if err := os.Symlink("/dev/full", path); err != nil {
				return err
			}
		}
		c.note("writer(%s,comp=%d,buf=%d)", variant, comp, buf)
		res.Stat("error-path:" + fam + ":" + variant)
		var w recordio.WriterI
		err := safely(func() error { var e error; w, e = recordio.NewFileWriter(wopts...); return e })
		outcome("new", err)
		if err == nil {
			operr := safely(w.Open)
			outcome("open", operr)
			var offs []uint64
			nrec := 2 + r.Intn(9)
			for i := 0; i < nrec && operr == nil; i++ {
				off, err := w.Write(r.Bytes(r.Intn(2000)))
				if err != nil {
					outcome("write", err)
					break
				}
				offs = append(offs, off)
			}
			if variant == "directio-rewound" && len(offs) > 1 {
				// back to a record boundary (not block aligned) and on from there: the final flush cannot be written
				outcome("seek", w.Seek(offs[1+r.Intn(len(offs)-1)]))
				for i := 1 + r.Intn(3); i > 0; i-- {
					if _, err := w.Write(r.Bytes(1 + r.Intn(100))); err != nil {
						outcome("write-after-seek", err)
						break
					}
				}
			}
			if err := c.atMost(dir, 1, "writer open"); err != nil {
				return err
			}
			outcome("close", safely(w.Close))
		}
		if err := c.atMost(dir, 0, "after the writer's Close"); err != nil {
			return err
		}
	case "index-loader-open-fails":
		t := filepath.Join(dir, "table")
		if _, err := hWriteTable(t, r.Intn(30), r); err != nil {
			return err
		}
		k := r.Intn(9) - 1
		if k < 0 {
			c.note("index.rio removed")
			if err := os.Remove(filepath.Join(t, sstables.IndexFileName)); err != nil {
				return err
			}
		} else {
			c.note("index.rio cut to %dB", k)
			if err := os.Truncate(filepath.Join(t, sstables.IndexFileName), int64(k)); err != nil {
				return err
			}
		}
		if r.Chance(25) {
			c.note("meta.pb.bin removed")
			_ = os.Remove(filepath.Join(t, sstables.MetaFileName))
		}
		for i := 1 + r.Intn(3); i > 0; i-- {
			name, lo := hxLoader(r, true)
			var rd sstables.SSTableReaderI
			err := safely(func() error {
				var e error
				rd, e = sstables.NewSSTableReader(append([]sstables.ReadOption{sstables.ReadBasePath(t), sstables.ReadBufferSizeBytes(4096)}, lo...)...)
				return e
			})
			outcome("new-reader("+name+")", err)
			res.Stat("error-path:" + fam + ":loader-" + name)
			if err == nil {
				outcome("close", safely(rd.Close))
			}
			if err := c.atMost(dir, 0, "after NewSSTableReader on a table without an index header"); err != nil {
				return err
			}
		}
	case "scan-open-fails":
		t := filepath.Join(dir, "table")
		legacy := r.Chance(25)
		if legacy { // an empty table of the metadata-less legacy format: Scan takes its other branch
			if err := os.MkdirAll(t, 0o700); err != nil {
				return err
			}
			b, err := hxHeaderBytes(dir, recordio.CompressionTypeNone, 8)
			if err != nil {
				return err
			}
			for _, n := range []string{sstables.IndexFileName, sstables.DataFileName} {
				if err := os.WriteFile(filepath.Join(t, n), b, 0o600); err != nil {
					return err
				}
			}
			c.note("table(legacy,empty)")
			res.Stat("error-path:" + fam + ":legacy-format")
		} else {
			n := 1 + r.Intn(30)
			if _, err := hWriteTable(t, n, r); err != nil {
				return err
			}
			c.note("table(keys=%d)", n)
		}
		name, lo := hxLoader(r, false)
		res.Stat("error-path:" + fam + ":loader-" + name)
		var rd sstables.SSTableReaderI
		err := safely(func() error {
			var e error
			rd, e = sstables.NewSSTableReader(append([]sstables.ReadOption{sstables.ReadBasePath(t), sstables.ReadBufferSizeBytes(4096)}, lo...)...)
			return e
		})
		if err != nil {
			return fmt.Errorf("scan-open-fails: the undamaged table does not load (%s): %w", name, err)
		}
		held := 2 // data.rio mapped, with the disk index index.rio as well
		if r.Chance(40) {
			_, err := rd.Scan()
			outcome("scan-before", err)
			if err == nil {
				held++
			}
		}
		k := r.Intn(8)
		c.note("data.rio cut to %dB", k)
		if err := os.Truncate(filepath.Join(t, sstables.DataFileName), int64(k)); err != nil {
			return err
		}
		for i := 1 + r.Intn(3); i > 0; i-- {
			var serr error
			if perr := safely(func() error { _, serr = rd.Scan(); return nil }); perr != nil {
				serr = perr
			}
			outcome("scan", serr)
			if serr == nil {
				held++
			}
			if err := c.atMost(dir, held, "after a Scan on a header-less data.rio (reader open)"); err != nil {
				return err
			}
		}
		outcome("close", safely(rd.Close))
		if err := c.atMost(dir, 0, "after the reader's Close"); err != nil {
			return err
		}
	case "reader-load-later-step-fails":
		t := filepath.Join(dir, "table")
		n := 1 + r.Intn(30)
		if _, err := hWriteTable(t, n, r); err != nil {
			return err
		}
		c.note("table(keys=%d)", n)
		switch r.Intn(4) {
		case 0:
			k := 1 + r.Intn(7)
			c.note("data.rio cut to %dB", k)
			res.Stat("error-path:" + fam + ":data-header-short")
			if err := os.Truncate(filepath.Join(t, sstables.DataFileName), int64(k)); err != nil {
				return err
			}
		case 1:
			c.note("data.rio last byte flipped")
			res.Stat("error-path:" + fam + ":data-checksum")
			if err := hxFlipLastByte(filepath.Join(t, sstables.DataFileName)); err != nil {
				return err
			}
		case 2:
			st, err := os.Stat(filepath.Join(t, sstables.IndexFileName))
			if err != nil {
				return err
			}
			cut := 1 + r.Intn(int(st.Size())-9)
			c.note("index.rio cut by %dB", cut)
			res.Stat("error-path:" + fam + ":index-cut-in-records")
			if err := os.Truncate(filepath.Join(t, sstables.IndexFileName), st.Size()-int64(cut)); err != nil {
				return err
			}
		default:
			st, err := os.Stat(filepath.Join(t, sstables.DataFileName))
			if err != nil {
				return err
			}
			cut := 1 + r.Intn(int(st.Size())-9)
			c.note("data.rio cut by %dB", cut)
			res.Stat("error-path:" + fam + ":data-cut-in-records")
			if err := os.Truncate(filepath.Join(t, sstables.DataFileName), st.Size()-int64(cut)); err != nil {
				return err
			}
		}
		for i := 1 + r.Intn(2); i > 0; i-- {
			name, lo := hxLoader(r, false)
			if i == 1 && r.Chance(50) {
				name, lo = "disk", []sstables.ReadOption{sstables.ReadIndexLoader(&sstables.DiskIndexLoader{})}
			}
			res.Stat("error-path:" + fam + ":loader-" + name)
			var rd sstables.SSTableReaderI
			err := safely(func() error {
				var e error
				rd, e = sstables.NewSSTableReader(append([]sstables.ReadOption{sstables.ReadBasePath(t), sstables.ReadBufferSizeBytes(4096)}, lo...)...)
				return e
			})
			outcome("new-reader("+name+")", err)
			if err == nil {
				outcome("close", safely(rd.Close))
			}
			if err := c.atMost(dir, 0, "after NewSSTableReader on a table whose index loads and whose data / filter does not"); err != nil {
				return err
			}
		}
	case "table-writer-open-fails":
		t := filepath.Join(dir, "table")
		if err := os.MkdirAll(t, 0o700); err != nil {
			return err
		}
		blocked := []string{sstables.IndexFileName, sstables.DataFileName, sstables.MetaFileName, sstables.DataFileName, sstables.MetaFileName}[r.Intn(5)]
		if err := os.Mkdir(filepath.Join(t, blocked), 0o700); err != nil {
			return err
		}
		c.note("%s is a directory", blocked)
		res.Stat("error-path:" + fam + ":blocked-" + blocked)
		if r.Chance(50) {
			res.Stat("error-path:" + fam + ":via-stream-writer")
			var w *sstables.SSTableStreamWriter
			err := safely(func() error {
				var e error
				w, e = sstables.NewSSTableStreamWriter(sstables.WriteBasePath(t), sstables.WithKeyComparator(skiplist.BytesComparator{}),
					sstables.WriteBufferSizeBytes([]int{64, 4096}[r.Intn(2)]))
				return e
			})
			if err != nil {
				return fmt.Errorf("table-writer-open-fails: NewSSTableStreamWriter: %w", err)
			}
			outcome("open", safely(w.Open))
			if err := c.atMost(dir, 0, "after the table writer's failed Open"); err != nil {
				return err
			}
			outcome("close", safely(w.Close))
			if err := c.atMost(dir, 0, "after Close of the table writer whose Open had failed"); err != nil {
				return err
			}
		} else {
			res.Stat("error-path:" + fam + ":via-memstore-flush")
			m := memstore.NewMemStore()
			for i := 1 + r.Intn(5); i > 0; i-- {
				_ = m.Upsert(r.Bytes(1+r.Intn(8)), r.Bytes(1+r.Intn(20)))
			}
			outcome("flush", safely(func() error { return m.Flush(sstables.WriteBasePath(t)) }))
			if err := c.atMost(dir, 0, "after the failed MemStore.Flush"); err != nil {
				return err
			}
		}
	case "wal-writer-open-fails":
		walDir := filepath.Join(dir, "wal")
		if err := os.MkdirAll(walDir, 0o700); err != nil {
			return err
		}
		failAt := r.Intn(4) // which file of the log cannot be written (0: the first one, in the constructor)
		maxSize := uint64([]int{100, 1 << 20}[r.Intn(2)])
		calls := 0
		wo, err := wal.NewWriteAheadLogOptions(wal.BasePath(walDir), wal.MaximumWalFileSizeBytes(maxSize),
			wal.WriterFactory(func(path string) (recordio.WriterI, error) {
				if calls == failAt {
					_ = os.Symlink("/dev/full", path) // no space left: not even the header can be written
				}
				calls++
				return recordio.NewFileWriter(recordio.Path(path))
			}))
		if err != nil {
			return err
		}
		c.note("wal(unwritable file=%d,max=%d)", failAt, maxSize)
		res.Stat(fmt.Sprintf("error-path:%s:file=%d", fam, failAt))
		var w wal.WriteAheadLogI
		nerr := safely(func() error { var e error; w, e = wal.NewWriteAheadLog(wo); return e })
		outcome("new", nerr)
		if nerr == nil {
			for i := 0; i < 40 && calls <= failAt; i++ {
				if r.Chance(60) {
					if err := w.AppendSync(r.Bytes(1 + r.Intn(60))); err != nil {
						outcome("append", err)
						break
					}
				} else if _, err := w.Rotate(); err != nil {
					outcome("rotate", err)
					break
				}
			}
			for i := 0; i < 8 && calls <= failAt; i++ {
				if _, err := w.Rotate(); err != nil {
					outcome("rotate", err)
				}
			}
			if err := c.atMost(dir, 1, "after the failed rotation (log open)"); err != nil {
				return err
			}
			outcome("close", safely(w.Close))
		}
		if err := c.atMost(dir, 0, "after the log whose next file could not be opened"); err != nil {
			return err
		}
	case "compaction-flag-open-fails", "compaction-input-fails":
		dbDir := filepath.Join(dir, "db")
		k := 2 + r.Intn(4)
		maxKeys := 40
		if fam == "compaction-flag-open-fails" {
			maxKeys = 3000 // the merge has to last long enough for the flag file to be redirected
		}
		if err := hxTablesDb(r, dbDir, k, maxKeys); err != nil {
			return err
		}
		c.note("db(tables=%d)", k)
		d, err := simpledb.NewSimpleDB(dbDir, simpledb.CompactionRunInterval(time.Hour), simpledb.CompactionFileThreshold(r.Intn(2)),
			simpledb.CompactionMaxSizeBytes(1<<30))
		if err != nil {
			return err
		}
		if err := safely(d.Open); err != nil {
			return fmt.Errorf("%s: Open of %d undamaged tables: %w", fam, k, err)
		}
		if err := c.atMost(dir, k+1, "after Open"); err != nil {
			return err
		}
		attempts := 1 + r.Intn(2)
		if fam == "compaction-input-fails" {
			// bit rot in (or loss of) one input that is not the first one, while the database is open
			j := 1 + r.Intn(k-1)
			if err := hxDamageTable(c, r, hxTablePath(dbDir, j+1), false); err != nil {
				return err
			}
			res.Stat(fmt.Sprintf("error-path:%s:inputs-opened-before=%d", fam, j))
		}
		for a := 0; a < attempts; a++ {
			stop, done := make(chan struct{}), make(chan int)
			if fam == "compaction-flag-open-fails" {
				// the flag file of the compaction about to run leads to a device without space
				go func() {
					planted := 0
					seen := map[string]bool{}
					for {
						select {
						case <-stop:
							done <- planted
							return
						default:
						}
						ents, _ := os.ReadDir(dbDir)
						for _, e := range ents {
							if strings.HasPrefix(e.Name(), simpledb.SSTableCompactionPathPrefix) && !seen[e.Name()] {
								seen[e.Name()] = true
								if os.Symlink("/dev/full", filepath.Join(dbDir, e.Name(), simpledb.CompactionFinishedSuccessfulFileName)) == nil {
									planted++
								}
							}
						}
					}
				}()
			}
			cerr := safely(func() error { _, _, e := d.VerifCompactOnce(); return e })
			if fam == "compaction-flag-open-fails" {
				close(stop)
				if <-done == 0 {
					res.Stat("error-path:" + fam + ":flag-not-redirected-in-time")
				}
			}
			outcome("compact", cerr)
			names, _, _, _ := d.VerifTables()
			if err := c.atMost(dir, len(names)+hQuiescentConst, "after the failed compaction (database open)"); err != nil {
				return err
			}
			if cerr == nil {
				break
			}
		}
		outcome("close", safely(d.Close))
		if err := c.atMost(dir, 0, "after Close"); err != nil {
			return err
		}
	case "db-open-fails-half-way":
		dbDir := filepath.Join(dir, "db")
		k := 2 + r.Intn(5)
		if err := hxTablesDb(r, dbDir, k, 40); err != nil {
			return err
		}
		j := 1 + r.Intn(k-1)
		c.note("db(tables=%d)", k)
		if err := hxDamageTable(c, r, hxTablePath(dbDir, j+1), true); err != nil {
			return err
		}
		res.Stat(fmt.Sprintf("error-path:%s:tables-loaded-before=%d", fam, minInt(j, 5)))
		opts := []simpledb.ExtraOption{simpledb.DisableCompactions()}
		if r.Chance(50) {
			opts = []simpledb.ExtraOption{simpledb.CompactionRunInterval(time.Hour)}
		}
		d, err := simpledb.NewSimpleDB(dbDir, opts...)
		if err != nil {
			return err
		}
		operr := safely(d.Open)
		outcome("open", operr)
		if operr == nil {
			outcome("close", safely(d.Close))
		} else {
			if err := c.atMost(dir, 0, "after the failed Open"); err != nil {
				return err
			}
			outcome("close", safely(d.Close))
			if r.Chance(50) {
				outcome("open-again", safely(d.Open))
			}
		}
		if err := c.atMost(dir, 0, "after the failed Open and the calls that followed"); err != nil {
			return err
		}
	case "db-close-fails-at-rotation":
		dbDir := filepath.Join(dir, "db")
		k := r.Intn(5)
		if err := os.MkdirAll(dbDir, 0o700); err != nil {
			return err
		}
		if err := hxTablesDb(r, dbDir, k, 40); err != nil {
			return err
		}
		opts := []simpledb.ExtraOption{simpledb.DisableCompactions()}
		mode := "off"
		if r.Chance(60) {
			opts, mode = []simpledb.ExtraOption{simpledb.CompactionRunInterval(time.Hour)}, "idle"
		}
		d, err := simpledb.NewSimpleDB(dbDir, opts...)
		if err != nil {
			return err
		}
		if err := safely(d.Open); err != nil {
			return fmt.Errorf("%s: Open of %d undamaged tables: %w", fam, k, err)
		}
		c.note("db(tables=%d,%s)", k, mode)
		for i := r.Intn(4); i > 0; i-- {
			if err := d.Put(string([]byte{byte('a' + r.Intn(8))}), fmt.Sprintf("%x", r.Bytes(1+r.Intn(20)))); err != nil {
				return err
			}
		}
		if err := c.atMost(dir, k+1, "before Close"); err != nil {
			return err
		}
		walDir := filepath.Join(dbDir, simpledb.WriteAheadFolder)
		switch r.Intn(3) { // the next log file cannot be created
		case 0:
			c.note("wal folder removed")
			err = os.RemoveAll(walDir)
		case 1:
			c.note("wal folder renamed")
			err = os.Rename(walDir, filepath.Join(dbDir, "wal-moved"))
		default:
			c.note("wal folder replaced by a file")
			if err = os.Rename(walDir, filepath.Join(dbDir, "wal-moved")); err == nil {
				err = os.WriteFile(walDir, nil, 0o600)
			}
		}
		if err != nil {
			return err
		}
		outcome("close", safely(d.Close))
		if err := c.atMost(dir, 0, "after the Close whose log rotation failed"); err != nil {
			return err
		}
		outcome("close-again", safely(d.Close))
		if err := c.atMost(dir, 0, "after the second Close"); err != nil {
			return err
		}
	case "reader-file-option":
		path := filepath.Join(dir, "x.rio")
		nrec := r.Intn(10)
		w, err := rProto.NewWriter(rProto.Path(path))
		if err != nil {
			return err
		}
		if err := w.Open(); err != nil {
			return err
		}
		for i := 0; i < nrec; i++ {
			if _, err := w.Write(&dbproto.CompactionMetadata{WritePath: fmt.Sprintf("%x", r.Bytes(1+r.Intn(20)))}); err != nil {
				return err
			}
		}
		if err := w.Close(); err != nil {
			return err
		}
		f, err := os.Open(path)
		if err != nil {
			return err
		}
		variant := []string{"recordio.NewFileReader(ReaderFile)", "recordio.NewFileReaderWithFile", "proto.NewProtoReaderWithFile", "proto.NewReader(ReaderFile)"}[r.Intn(4)]
		c.note("%s records=%d", variant, nrec)
		res.Stat("error-path:" + fam + ":" + variant)
		var open, closeFn func() error
		var next func() error
		nerr := safely(func() error {
			switch variant {
			case "recordio.NewFileReader(ReaderFile)", "recordio.NewFileReaderWithFile":
				var rd recordio.ReaderI
				var e error
				if variant == "recordio.NewFileReaderWithFile" {
					rd, e = recordio.NewFileReaderWithFile(f)
				} else {
					rd, e = recordio.NewFileReader(recordio.ReaderFile(f), recordio.ReaderBufferSizeBytes(4096))
				}
				if e != nil {
					return e
				}
				open, closeFn = rd.Open, rd.Close
				next = func() error { _, e := rd.ReadNext(); return e }
			default:
				var rd rProto.ReaderI
				var e error
				if variant == "proto.NewProtoReaderWithFile" {
					rd, e = rProto.NewProtoReaderWithFile(f)
				} else {
					rd, e = rProto.NewReader(rProto.ReaderFile(f), rProto.ReadBufferSizeBytes(4096))
				}
				if e != nil {
					return e
				}
				open, closeFn = rd.Open, rd.Close
				next = func() error { _, e := rd.ReadNext(&dbproto.CompactionMetadata{}); return e }
			}
			return nil
		})
		outcome("new", nerr)
		if nerr == nil {
			if r.Chance(80) {
				operr := safely(open)
				outcome("open", operr)
				for i := r.Intn(nrec + 2); i > 0 && operr == nil; i-- {
					if err := safely(next); err != nil {
						break
					}
				}
			}
			if err := c.atMost(dir, 1, "reader open"); err != nil {
				return err
			}
			outcome("close", safely(closeFn))
		}
		// the constructors are documented as taking the file over: whether they succeed or not, it is theirs
		if err := c.atMost(dir, 0, "after the reader that was given an *os.File"); err != nil {
			return err
		}
		runtime.KeepAlive(f)
	case "wal-replayer-ctor-fails":
		base := filepath.Join(dir, "wal")
		elsewhere := filepath.Join(dir, "elsewhere")
		if err := os.MkdirAll(elsewhere, 0o700); err != nil {
			return err
		}
		variant := []string{"base-path-missing", "base-path-is-a-file", "base-path-renamed-by-the-factory"}[r.Intn(3)]
		factory := func(path string) (recordio.WriterI, error) { // a factory that keeps the log files somewhere else
			return recordio.NewFileWriter(recordio.Path(filepath.Join(elsewhere, filepath.Base(path))))
		}
		switch variant {
		case "base-path-is-a-file":
			if err := os.WriteFile(base, nil, 0o600); err != nil {
				return err
			}
		case "base-path-renamed-by-the-factory":
			if err := os.MkdirAll(base, 0o700); err != nil {
				return err
			}
			factory = func(path string) (recordio.WriterI, error) {
				w, err := recordio.NewFileWriter(recordio.Path(path))
				_ = os.Rename(base, filepath.Join(dir, "wal-moved"))
				return w, err
			}
		}
		c.note("wal(%s)", variant)
		res.Stat("error-path:" + fam + ":" + variant)
		wo, err := wal.NewWriteAheadLogOptions(wal.BasePath(base), wal.WriterFactory(factory))
		if err != nil {
			return err
		}
		var w wal.WriteAheadLogI
		nerr := safely(func() error { var e error; w, e = wal.NewWriteAheadLog(wo); return e })
		outcome("new", nerr)
		if nerr == nil {
			if err := c.atMost(dir, 1, "log open"); err != nil {
				return err
			}
			outcome("close", safely(w.Close))
		}
		if err := c.atMost(dir, 0, "after NewWriteAheadLog on a base path no replayer can be made for"); err != nil {
			return err
		}
	default:
		return fmt.Errorf("unknown error-path family %q", fam)
	}
	res.NoteNontrivial("errpath:" + c.cs())
	res.Sample(c.cs())
	return nil
}
