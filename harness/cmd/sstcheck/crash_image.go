package main

// Replayer of the crash-image pipeline: an in-memory directory tree the mutating events are applied to one at a time.
// Nodes are immutable (a write makes a new node), so an image is a cheap copy of the name table; an image is written
// out into a fresh temp directory only for the moment a probe child looks at it.

import (
	"crypto/sha256"
	"encoding/binary"
	"encoding/hex"
	"fmt"
	"os"
	"path/filepath"
	"regexp"
	"sort"
	"strings"
)

type crashNode struct {
	dir  bool
	data []byte
	sum  [32]byte
	have bool
}

func (n *crashNode) digest() [32]byte {
	if !n.have {
		n.sum = sha256.Sum256(n.data)
		n.have = true
	}
	return n.sum
}

type crashFS struct {
	nodes map[string]*crashNode // relative path -> node; the root itself is implicit
}

func newCrashFS() *crashFS { return &crashFS{nodes: map[string]*crashNode{}} }

func (fs *crashFS) snapshot() *crashFS {
	c := &crashFS{nodes: make(map[string]*crashNode, len(fs.nodes))}
	for k, v := range fs.nodes {
		c.nodes[k] = v
	}
	return c
}

func (fs *crashFS) paths() []string {
	out := make([]string, 0, len(fs.nodes))
	for k := range fs.nodes {
		out = append(out, k)
	}
	sort.Strings(out)
	return out
}

func (fs *crashFS) hash() string {
	h := sha256.New()
	for _, p := range fs.paths() {
		n := fs.nodes[p]
		if n.dir {
			fmt.Fprintf(h, "d %s\n", p)
		} else {
			d := n.digest()
			fmt.Fprintf(h, "f %s %d %x\n", p, len(n.data), d[:])
		}
	}
	return hex.EncodeToString(h.Sum(nil)[:16])
}

func (fs *crashFS) parentOK(p string) bool {
	d := filepath.Dir(p)
	if d == "." || d == "" {
		return true
	}
	n, ok := fs.nodes[d]
	return ok && n.dir
}

func (fs *crashFS) hasChildren(p string) bool {
	pre := p + "/"
	for k := range fs.nodes {
		if strings.HasPrefix(k, pre) {
			return true
		}
	}
	return false
}

// apply performs one event; changed tells whether the image differs afterwards. An error means that the event list
// does not fit the tree (parser/replayer bug, or an untraced modification) - never a property violation.
func (fs *crashFS) apply(e *crashEvent) (changed bool, err error) {
	switch e.Kind {
	case "create":
		if e.Path == "" {
			return false, nil
		}
		n, ok := fs.nodes[e.Path]
		if !ok {
			if !fs.parentOK(e.Path) {
				return false, fmt.Errorf("%v: parent directory missing", e)
			}
			fs.nodes[e.Path] = &crashNode{}
			return true, nil
		}
		if n.dir {
			return false, nil
		}
		if e.Trunc && len(n.data) > 0 {
			fs.nodes[e.Path] = &crashNode{}
			return true, nil
		}
		return false, nil
	case "write":
		n, ok := fs.nodes[e.Path]
		if !ok || n.dir {
			return false, fmt.Errorf("%v: no such file", e)
		}
		if len(e.Data) == 0 {
			return false, nil
		}
		end := e.Off + int64(len(e.Data))
		size := int64(len(n.data))
		if end > size {
			size = end
		}
		nd := make([]byte, size)
		copy(nd, n.data)
		copy(nd[e.Off:], e.Data)
		if int64(len(n.data)) == size && string(nd) == string(n.data) {
			return false, nil
		}
		fs.nodes[e.Path] = &crashNode{data: nd}
		return true, nil
	case "truncate":
		n, ok := fs.nodes[e.Path]
		if !ok || n.dir {
			return false, fmt.Errorf("%v: no such file", e)
		}
		if int64(len(n.data)) == e.Size {
			return false, nil
		}
		nd := make([]byte, e.Size)
		copy(nd, n.data)
		fs.nodes[e.Path] = &crashNode{data: nd}
		return true, nil
	case "mkdir":
		if _, ok := fs.nodes[e.Path]; ok {
			return false, fmt.Errorf("%v: exists", e)
		}
		if !fs.parentOK(e.Path) {
			return false, fmt.Errorf("%v: parent directory missing", e)
		}
		fs.nodes[e.Path] = &crashNode{dir: true}
		return true, nil
	case "unlink":
		n, ok := fs.nodes[e.Path]
		if !ok || n.dir {
			return false, fmt.Errorf("%v: no such file", e)
		}
		delete(fs.nodes, e.Path)
		return true, nil
	case "rmdir":
		n, ok := fs.nodes[e.Path]
		if !ok || !n.dir {
			return false, fmt.Errorf("%v: no such directory", e)
		}
		if fs.hasChildren(e.Path) {
			return false, fmt.Errorf("%v: directory not empty", e)
		}
		delete(fs.nodes, e.Path)
		return true, nil
	case "rename":
		n, ok := fs.nodes[e.Path]
		if !ok {
			return false, fmt.Errorf("%v: no such entry", e)
		}
		if t, ok := fs.nodes[e.Path2]; ok {
			if t.dir != n.dir || (t.dir && fs.hasChildren(e.Path2)) {
				return false, fmt.Errorf("%v: target in the way", e)
			}
		}
		if !fs.parentOK(e.Path2) {
			return false, fmt.Errorf("%v: target parent missing", e)
		}
		moved := map[string]*crashNode{e.Path2: n}
		delete(fs.nodes, e.Path)
		pre := e.Path + "/"
		for k, v := range fs.nodes {
			if strings.HasPrefix(k, pre) {
				moved[e.Path2+"/"+k[len(pre):]] = v
				delete(fs.nodes, k)
			}
		}
		for k, v := range moved {
			fs.nodes[k] = v
		}
		return true, nil
	}
	return false, nil
}

// materialise writes the image into dir (which exists and is empty)
func (fs *crashFS) materialise(dir string) error {
	for _, p := range fs.paths() { // sorted: a directory comes before its entries
		n := fs.nodes[p]
		full := filepath.Join(dir, p)
		if n.dir {
			if err := os.Mkdir(full, 0o755); err != nil {
				return err
			}
			continue
		}
		if err := os.WriteFile(full, n.data, 0o644); err != nil {
			return err
		}
	}
	return nil
}

func crashLoadFS(dir string) (*crashFS, error) {
	fs := newCrashFS()
	err := filepath.Walk(dir, func(p string, info os.FileInfo, err error) error {
		if err != nil {
			return err
		}
		if p == dir {
			return nil
		}
		rel, err := filepath.Rel(dir, p)
		if err != nil {
			return err
		}
		if info.IsDir() {
			fs.nodes[rel] = &crashNode{dir: true}
			return nil
		}
		b, err := os.ReadFile(p)
		if err != nil {
			return err
		}
		fs.nodes[rel] = &crashNode{data: b}
		return nil
	})
	return fs, err
}

// ---------------------------------------------------------------------------------------------
// abstract description of an image (what the L6-fs model talks about)

type crashRioInfo struct {
	Size    int
	Header  bool // the 8 byte file header is complete
	Records int  // complete records
	Torn    bool // bytes after the last complete record that do not form a record
}

// crashScanRio walks a V4 recordio file image without checking checksums.
func crashScanRio(b []byte) crashRioInfo {
	info := crashRioInfo{Size: len(b)}
	if len(b) < 8 {
		info.Torn = len(b) > 0
		return info
	}
	info.Header = true
	compressed := binary.LittleEndian.Uint32(b[4:8]) != 0
	p := 8
	for p < len(b) {
		q := p
		uv := func() (uint64, bool) {
			v, n := binary.Uvarint(b[q:])
			if n <= 0 {
				return 0, false
			}
			q += n
			return v, true
		}
		if _, ok := uv(); !ok { // magic
			info.Torn = true
			return info
		}
		if q >= len(b) {
			info.Torn = true
			return info
		}
		isNil := b[q] == 1
		q++
		un, ok1 := uv()
		co, ok2 := uv()
		_, ok3 := uv()
		if !ok1 || !ok2 || !ok3 {
			info.Torn = true
			return info
		}
		payload := un
		if compressed {
			payload = co
		}
		if isNil {
			payload = 0
		}
		if uint64(len(b)-q) < payload {
			info.Torn = true
			return info
		}
		q += int(payload)
		info.Records++
		p = q
	}
	return info
}

type crashTableAbs struct {
	Name    string
	State   string   // complete | partial
	Present []string // partial: the files that exist ("name" or "name:empty")
}

type crashWalAbs struct {
	Name string
	crashRioInfo
}

type crashCompAbs struct {
	Name    string
	Flagged bool
	Table   crashTableAbs
}

type crashAbs struct {
	Tables []crashTableAbs
	Wals   []crashWalAbs
	WalDir bool
	Comps  []crashCompAbs
	Other  []string
}

var crashTableFiles = []string{"bloom.bf.gz", "data.rio", "index.rio", "meta.pb.bin"}
var crashTableDirRe = regexp.MustCompile(`^sstable_[0-9]{15}$`)

func crashTableState(fs *crashFS, dir string) crashTableAbs {
	t := crashTableAbs{Name: dir, State: "complete"}
	for _, f := range crashTableFiles {
		n, ok := fs.nodes[dir+"/"+f]
		switch {
		case !ok:
			t.State = "partial"
		case len(n.data) == 0:
			t.State = "partial"
			t.Present = append(t.Present, f+":empty")
		default:
			t.Present = append(t.Present, f)
		}
	}
	// the metadata is written last and in one piece: a table is complete once it is there - provided index and data
	// were complete before (equally many whole records, nothing torn)
	if t.State == "complete" {
		t.Present = nil
		ix, da := crashScanRio(fs.nodes[dir+"/index.rio"].data), crashScanRio(fs.nodes[dir+"/data.rio"].data)
		if !ix.Header || !da.Header || ix.Torn || da.Torn || ix.Records != da.Records {
			t.State = "inconsistent"
			t.Present = []string{fmt.Sprintf("index=%d:r%d", ix.Size, ix.Records), fmt.Sprintf("data=%d:r%d", da.Size, da.Records), "meta.pb.bin"}
		}
	}
	return t
}

// crashAbstract classifies every object of a database directory image. bare = the directory is a bare WAL directory.
func crashAbstract(fs *crashFS, bare bool) *crashAbs {
	a := &crashAbs{WalDir: bare} // bare: the directory itself is the log directory
	for _, p := range fs.paths() {
		n := fs.nodes[p]
		parts := strings.Split(p, "/")
		switch {
		case bare && len(parts) == 1 && !n.dir && strings.HasSuffix(p, ".wal"):
			a.Wals = append(a.Wals, crashWalAbs{Name: p, crashRioInfo: crashScanRio(n.data)})
		case bare:
			a.Other = append(a.Other, p)
		case len(parts) == 1 && n.dir && p == "wal":
			a.WalDir = true
		case len(parts) == 2 && parts[0] == "wal" && !n.dir && strings.HasSuffix(p, ".wal"):
			a.Wals = append(a.Wals, crashWalAbs{Name: parts[1], crashRioInfo: crashScanRio(n.data)})
		case len(parts) == 1 && n.dir && crashTableDirRe.MatchString(p):
			a.Tables = append(a.Tables, crashTableState(fs, p))
		case len(parts) == 1 && n.dir && strings.HasPrefix(p, "sstable_compaction"):
			c := crashCompAbs{Name: p, Table: crashTableState(fs, p)}
			if f, ok := fs.nodes[p+"/compaction_successful"]; ok {
				info := crashScanRio(f.data)
				c.Flagged = info.Header && info.Records >= 1
			}
			a.Comps = append(a.Comps, c)
		case len(parts) == 2 && (crashTableDirRe.MatchString(parts[0]) || strings.HasPrefix(parts[0], "sstable_compaction")):
			known := parts[1] == "compaction_successful"
			for _, f := range crashTableFiles {
				known = known || f == parts[1]
			}
			if !known {
				a.Other = append(a.Other, p)
			}
		default:
			a.Other = append(a.Other, p)
		}
	}
	return a
}

func (t crashTableAbs) str() string {
	if t.State == "complete" {
		return "complete"
	}
	if t.State == "inconsistent" {
		return "inconsistent{" + strings.Join(t.Present, ",") + "}"
	}
	return "partial{" + strings.Join(t.Present, ",") + "}"
}

// Line is the canonical abstract description; compaction directory names (random suffix) are replaced by their rank.
func (a *crashAbs) Line() string {
	var sb strings.Builder
	sb.WriteString("T[")
	for i, t := range a.Tables {
		if i > 0 {
			sb.WriteByte(' ')
		}
		sb.WriteString(t.Name + "=" + t.str())
	}
	sb.WriteString("] W[")
	if !a.WalDir && len(a.Wals) == 0 {
		sb.WriteString("nodir")
	}
	for i, w := range a.Wals {
		if i > 0 {
			sb.WriteByte(' ')
		}
		fmt.Fprintf(&sb, "%s=%d:%s", w.Name, w.Size, w.shape())
	}
	sb.WriteString("] C[")
	for i, c := range a.Comps {
		if i > 0 {
			sb.WriteByte(' ')
		}
		f := "unflagged"
		if c.Flagged {
			f = "flagged"
		}
		fmt.Fprintf(&sb, "comp%d=%s:%s", i, f, c.Table.str())
	}
	sb.WriteString("]")
	if len(a.Other) > 0 {
		sb.WriteString(" other[" + strings.Join(a.Other, ",") + "]")
	}
	return sb.String()
}

func (w crashWalAbs) shape() string {
	switch {
	case !w.Header:
		return "nohdr"
	case w.Torn:
		return fmt.Sprintf("r%d+torn", w.Records)
	}
	return fmt.Sprintf("r%d", w.Records)
}

// Shape drops names, sizes and record counts: the kind of disk the image is.
func (a *crashAbs) Shape() string {
	var t, w, c []string
	for _, x := range a.Tables {
		t = append(t, x.str())
	}
	for _, x := range a.Wals {
		s := x.shape()
		if strings.HasPrefix(s, "r") {
			n := "r+"
			if x.Records == 0 {
				n = "r0"
			}
			if x.Torn {
				n += "+torn"
			}
			s = n
		}
		w = append(w, s)
	}
	for _, x := range a.Comps {
		f := "unflagged"
		if x.Flagged {
			f = "flagged"
		}
		c = append(c, f+":"+x.Table.str())
	}
	wd := ""
	if !a.WalDir && len(a.Wals) == 0 {
		wd = "nodir"
	}
	return "T[" + strings.Join(t, " ") + "] W[" + wd + strings.Join(w, " ") + "] C[" + strings.Join(c, " ") + "]"
}

// Class names the most telling incomplete object of the image; it becomes part of a violation's signature.
func (a *crashAbs) Class() string {
	for _, c := range a.Comps {
		if c.Flagged && c.Table.State != "complete" {
			return "compaction-flagged-with-partial-table"
		}
	}
	for _, c := range a.Comps {
		if c.Flagged {
			return "compaction-flagged"
		}
	}
	for _, t := range a.Tables {
		if t.State == "inconsistent" {
			return "table-metadata-without-all-records"
		}
	}
	nPartial := 0
	halfDeleted := false
	for _, t := range a.Tables {
		if t.State != "complete" {
			nPartial++
			for _, f := range t.Present {
				if f == "meta.pb.bin" {
					halfDeleted = true
				}
			}
		}
	}
	if halfDeleted {
		return "half-deleted-table-dir"
	}
	if nPartial > 0 {
		return "partial-table-dir"
	}
	for _, w := range a.Wals {
		if !w.Header {
			return "wal-without-header"
		}
	}
	for _, w := range a.Wals {
		if w.Torn {
			return "torn-wal-tail"
		}
	}
	for _, c := range a.Comps {
		_ = c
		return "compaction-unflagged"
	}
	if !a.WalDir && len(a.Wals) == 0 {
		return "no-wal-dir"
	}
	nonEmpty := 0
	for _, w := range a.Wals {
		if w.Records > 0 {
			nonEmpty++
		}
	}
	if nonEmpty > 1 {
		return "several-wal-files"
	}
	return "clean"
}

// crashAbstractDir is the entry point for other streams: canonical abstract description of a directory on disk.
func crashAbstractDir(dir string, bare bool) (line string, shape string, err error) {
	fs, err := crashLoadFS(dir)
	if err != nil {
		return "", "", err
	}
	a := crashAbstract(fs, bare)
	return a.Line(), a.Shape(), nil
}
