package main

// stream "compdir" (extension of C10 / C02): byte-level COMPACTION directories against the abstract disk.
//
// Real side: a database with 2..4 flushed tables (+ 0..2 operations that only live in the WAL) is built with the real
// code; the directory is copied ("pre"); ONE real compaction cycle runs (simpledb.VerifCompactOnce = executeCompaction +
// reflectCompactionResult) with the table writer's two recordio writers wrapped (sstables.VerifWriterWrap): the merged
// records handed to WriteNext, the logical and on-disk sizes after every Write, a copy of the directory and the presence
// of the success flag are recorded at every Write and right before the two writers are closed.  The compaction
// directory as the real code left it (table files + compaction_successful, found under the replacement path after the
// rename) and the metadata read from the real flag give the final image.
// Images: (A) the complete table part with EVERY prefix of the flag file (absent, empty, truncated at every byte;
// prefixes of a reference call list of saveCompactionMetadata with generated flush points), (B) prefixes of the table
// writer's calls without flag (real snapshots with the observed flush points + truncation images of a reference call
// list with generated flush points), (C) NOT kill-9 images, model comparison only: a cut flag followed by zero padding,
// single damaged bytes, a complete flag on an incomplete table.  Each image is placed into a copy of "pre" under the
// compaction directory's own name and the REAL simpledb Open runs: error, surviving directories, table list, every
// key's Get.
// Model side: `compdir.run` / `compdir.flag` classify the same image (flag readable? which metadata? table part:
// tbldir's classification); the expected outcome of Open is derived from that classification by a name-level reference
// of repairCompactions/reconstructSSTables written here.  The flag reading code itself (rProto reader + unmarshal, as in
// repairCompactions) is run on every flag image and compared with the model's `read=`.
// Independent oracle (no model): for every kill-9 image (A, B, real snapshots) Open succeeds, no compaction directory
// is left and every key reads as before the compaction.

import (
	"bytes"
	"fmt"
	"os"
	"path/filepath"
	"sort"
	"strings"

	"github.com/thomasjungblut/go-sstables/recordio"
	rProto "github.com/thomasjungblut/go-sstables/recordio/proto"
	"github.com/thomasjungblut/go-sstables/simpledb"
	dbproto "github.com/thomasjungblut/go-sstables/simpledb/proto"
	"github.com/thomasjungblut/go-sstables/sstables"
	sproto "github.com/thomasjungblut/go-sstables/sstables/proto"
	"google.golang.org/protobuf/proto"
)

func init() {
	streams["compdir"] = runCompDir
}

const cdFlagName = "compaction_successful"

// ---------------------------------------------------------------------------------------------
// recording the real compaction

type cdPoint struct {
	what         string
	logD, logI   int
	diskD, diskI int
	metaLen      int
	bloomLen     int
	snap         tdImg
	hasFlag      bool
	flag         []byte
}

type cdRec struct {
	dir    string
	data   recordio.WriterI
	index  rProto.WriterI
	keys   [][]byte
	vals   [][]byte
	points []cdPoint
	cnt    int
}

func (r *cdRec) point(what string) {
	p := cdPoint{what: what, logD: int(r.data.Size()), logI: int(r.index.Size())}
	p.diskD = tdStatLen(filepath.Join(r.dir, tdFiles[tdData]))
	p.diskI = tdStatLen(filepath.Join(r.dir, tdFiles[tdIndex]))
	p.metaLen = tdStatLen(filepath.Join(r.dir, tdFiles[tdMeta]))
	p.bloomLen = tdStatLen(filepath.Join(r.dir, tdFiles[tdBloom]))
	p.snap = tdReadDir(r.dir)
	if b, err := os.ReadFile(filepath.Join(r.dir, cdFlagName)); err == nil {
		p.hasFlag, p.flag = true, b
	}
	r.points = append(r.points, p)
}

type cdDataW struct {
	recordio.WriterI
	r *cdRec
}

func (w cdDataW) Write(rec []byte) (uint64, error) {
	off, err := w.WriterI.Write(rec)
	var v []byte
	if rec != nil {
		v = append([]byte{}, rec...)
	}
	w.r.vals = append(w.r.vals, v)
	w.r.point(fmt.Sprintf("d%d", w.r.cnt))
	return off, err
}

func (w cdDataW) Close() error {
	w.r.point("closeD")
	return w.WriterI.Close()
}

type cdIndexW struct {
	rProto.WriterI
	r *cdRec
}

func (w cdIndexW) Write(msg proto.Message) (uint64, error) {
	off, err := w.WriterI.Write(msg)
	if ie, ok := msg.(*sproto.IndexEntry); ok {
		w.r.keys = append(w.r.keys, append([]byte{}, ie.Key...))
	}
	w.r.point(fmt.Sprintf("i%d", w.r.cnt))
	w.r.cnt++
	return off, err
}

func (w cdIndexW) Close() error {
	w.r.point("closeI")
	return w.WriterI.Close()
}

// ---------------------------------------------------------------------------------------------
// the database before the compaction

type cdVal struct {
	del bool
	v   string
}

type cdBuilt struct {
	files      map[string][]byte // relative path → content
	dirs       []string          // relative directories
	tableNames []string
	tables     []map[string]cdVal
	walOps     map[string]cdVal
	hasWal     bool
	ref        map[string]string
	keys       []string
	desc       string
	excludeOld bool
}

func cdOpenDB(dir string, maxSize uint64) (*simpledb.DB, error) {
	db, err := simpledb.NewSimpleDB(dir, simpledb.DisableCompactions(), simpledb.CompactionFileThreshold(1),
		simpledb.CompactionMaxSizeBytes(maxSize), simpledb.MemstoreSizeBytes(1<<40))
	if err != nil {
		return nil, err
	}
	return db, db.Open()
}

func cdSnapshotDir(root string) (map[string][]byte, []string, error) {
	files := map[string][]byte{}
	var dirs []string
	err := filepath.Walk(root, func(p string, info os.FileInfo, err error) error {
		if err != nil {
			return err
		}
		rel, _ := filepath.Rel(root, p)
		if rel == "." {
			return nil
		}
		if info.IsDir() {
			dirs = append(dirs, rel)
			return nil
		}
		b, err := os.ReadFile(p)
		if err != nil {
			return err
		}
		files[rel] = b
		return nil
	})
	return files, dirs, err
}

func cdTableName(g int) string { return fmt.Sprintf("sstable_%015d", g) }

// ---------------------------------------------------------------------------------------------
// the flag: reference calls of saveCompactionMetadata (lengths), the real reading code

// number of bytes of the flag file after j calls (-1 = absent): create, close, create, write 8, the generated writes
// during Write (clipped), the final flush, close
func cdFlagCalls(flen int, sizes []int) []int {
	st := []int{-1, 0, 0, 0, 8}
	w := 8
	for _, n := range sizes {
		m := n
		if m > flen-w {
			m = flen - w
		}
		if m > 0 {
			w += m
			st = append(st, w)
		}
	}
	if w < flen {
		st = append(st, flen)
	}
	st = append(st, flen) // close
	return st
}

// the reading code of repairCompactions on a file with these bytes: "none" or "<wp>;<rp>;<p>,<p>…"
func cdRealRead(tmp string, present bool, b []byte) (string, error) {
	if !present {
		return "none", nil
	}
	p := filepath.Join(tmp, "flagprobe")
	_ = os.Remove(p)
	if err := os.WriteFile(p, b, 0666); err != nil {
		return "", err
	}
	defer os.Remove(p)
	md := &dbproto.CompactionMetadata{}
	err := safely(func() (err error) {
		if _, err = os.Stat(p); err != nil {
			return err
		}
		reader, err := rProto.NewReader(rProto.ReaderPath(p))
		if err != nil {
			return err
		}
		defer func() { _ = reader.Close() }()
		if err = reader.Open(); err != nil {
			return err
		}
		_, err = reader.ReadNext(md)
		return err
	})
	if err != nil {
		return "none", nil
	}
	var ps []string
	for _, s := range md.SstablePaths {
		ps = append(ps, gb([]byte(s)))
	}
	return gb([]byte(md.WritePath)) + ";" + gb([]byte(md.ReplacementPath)) + ";" + strings.Join(ps, ","), nil
}

// ---------------------------------------------------------------------------------------------
// images, the real Open, the expectation

type cdImg struct {
	tbl     tdImg
	hasFlag bool
	flag    []byte
}

func (m cdImg) flagStr() string {
	if !m.hasFlag {
		return "-"
	}
	return gb(nonNil(m.flag))
}

type cdObs struct {
	open   string
	dirs   []string
	tables []string
	gets   []string
}

func (o cdObs) String() string {
	if o.open != "ok" {
		return "open=" + o.open
	}
	return fmt.Sprintf("open=ok dirs=%s tables=%s gets=%s", strings.Join(o.dirs, ","), strings.Join(o.tables, ","), strings.Join(o.gets, ";"))
}

func cdOpenImage(scratch string, b *cdBuilt, compName string, m cdImg) (cdObs, string, error) {
	var o cdObs
	base, err := os.MkdirTemp(scratch, "img-")
	if err != nil {
		return o, "", err
	}
	defer os.RemoveAll(base)
	for _, d := range b.dirs {
		if err := os.MkdirAll(filepath.Join(base, d), 0700); err != nil {
			return o, "", err
		}
	}
	for rel, c := range b.files {
		if err := os.WriteFile(filepath.Join(base, rel), c, 0666); err != nil {
			return o, "", err
		}
	}
	cdir := filepath.Join(base, compName)
	if err := tdMaterialize(cdir, m.tbl); err != nil {
		return o, "", err
	}
	if m.tbl.dir && m.hasFlag {
		if err := os.WriteFile(filepath.Join(cdir, cdFlagName), m.flag, 0666); err != nil {
			return o, "", err
		}
	}
	var db *simpledb.DB
	e := safely(func() error {
		var err error
		db, err = simpledb.NewSimpleDB(base, simpledb.DisableCompactions())
		if err != nil {
			return err
		}
		return db.Open()
	})
	msg := ""
	if e != nil {
		o.open = "err"
		msg = e.Error()
		if strings.HasPrefix(msg, "PANIC") {
			o.open = "panic"
		}
		return o, msg, nil
	}
	o.open = "ok"
	names, _, _, _ := db.VerifTables()
	o.tables = names
	for _, k := range b.keys {
		var v string
		ge := safely(func() error {
			var err error
			v, err = db.Get(k)
			return err
		})
		switch {
		case ge == nil:
			o.gets = append(o.gets, k+"="+v)
		case ge == simpledb.ErrNotFound:
			o.gets = append(o.gets, k+"=nf")
		default:
			o.gets = append(o.gets, k+"=err")
		}
	}
	_ = safely(func() error { return db.Close() })
	ents, _ := os.ReadDir(base)
	for _, en := range ents {
		if en.IsDir() && strings.HasPrefix(en.Name(), "sstable") {
			o.dirs = append(o.dirs, en.Name())
		}
	}
	sort.Strings(o.dirs)
	return o, msg, nil
}

func (b *cdBuilt) refGets() []string {
	var out []string
	for _, k := range b.keys {
		if v, ok := b.ref[k]; ok {
			out = append(out, k+"="+v)
		} else {
			out = append(out, k+"=nf")
		}
	}
	return out
}

type cdModel struct {
	raw   string
	td    tdModel
	flag  string
	read  string
	abs   string
	cev   int
	lent  int
	comp  string
	done  string
	flen  int
	calls int
}

func cdParseModel(s string) cdModel {
	m := cdModel{raw: s, td: tdParseModel(s), cev: -1, lent: -1, flen: -1, calls: -1}
	for _, t := range strings.Fields(s) {
		kv := strings.SplitN(t, "=", 2)
		if len(kv) != 2 {
			continue
		}
		switch kv[0] {
		case "flag":
			m.flag = kv[1]
		case "read":
			m.read = kv[1]
		case "abs":
			m.abs = kv[1]
		case "cev":
			fmt.Sscan(kv[1], &m.cev)
		case "lent":
			fmt.Sscan(kv[1], &m.lent)
		case "comp":
			m.comp = kv[1]
		case "done":
			m.done = kv[1]
		case "flen":
			fmt.Sscan(kv[1], &m.flen)
		case "len":
			fmt.Sscan(kv[1], &m.calls)
		}
	}
	return m
}

func cdUnhex(s string) (string, bool) {
	if s == "." {
		return "", true
	}
	var out []byte
	if len(s)%2 != 0 {
		return "", false
	}
	for i := 0; i < len(s); i += 2 {
		var x byte
		if _, err := fmt.Sscanf(s[i:i+2], "%02x", &x); err != nil {
			return "", false
		}
		out = append(out, x)
	}
	return string(out), true
}

// what the real Open must show if the model's classification of the compaction directory is right: a name-level
// reference of repairCompactions + reconstructSSTables + the WAL replay
func cdExpect(b *cdBuilt, compName string, mo cdModel, dirExists bool) string {
	type tbl struct {
		cells map[string]cdVal
		errs  map[string]bool
		class string
	}
	dirs := map[string]*tbl{}
	for i, n := range b.tableNames {
		dirs[n] = &tbl{cells: b.tables[i], class: "complete"}
	}
	fail := cdObs{open: "err"}.String()
	if dirExists {
		ct := &tbl{class: mo.td.class, cells: map[string]cdVal{}, errs: map[string]bool{}}
		if mo.td.cells != "" {
			for _, p := range strings.Split(mo.td.cells, ";") {
				kv := strings.SplitN(p, "=", 2)
				if len(kv) != 2 {
					return "bad-op"
				}
				k, ok := cdUnhex(kv[0])
				if !ok {
					return "bad-op"
				}
				switch kv[1] {
				case "-", ".":
					ct.cells[k] = cdVal{del: true}
				case "!":
					ct.errs[k] = true
				default:
					v, ok := cdUnhex(kv[1])
					if !ok {
						return "bad-op"
					}
					ct.cells[k] = cdVal{v: v}
				}
			}
		}
		switch mo.read {
		case "none":
			// unfinished compaction: the directory is deleted
		case "":
			return "bad-op"
		default:
			parts := strings.Split(mo.read, ";")
			if len(parts) != 3 {
				return "bad-op"
			}
			wp, ok1 := cdUnhex(parts[0])
			rp, ok2 := cdUnhex(parts[1])
			if !ok1 || !ok2 {
				return "bad-op"
			}
			var paths []string
			if parts[2] != "" {
				for _, h := range strings.Split(parts[2], ",") {
					p, ok := cdUnhex(h)
					if !ok {
						return "bad-op"
					}
					paths = append(paths, p)
				}
			}
			all := map[string]*tbl{}
			for k, v := range dirs {
				all[k] = v
			}
			all[compName] = ct
			bad := func(p string) bool { return strings.ContainsRune(p, 0) || p == "" || strings.Contains(p, "/") }
			for _, p := range paths {
				if p != rp {
					if bad(p) {
						return fail
					}
					delete(all, p)
				}
			}
			if bad(rp) {
				return fail
			}
			delete(all, rp)
			if bad(wp) {
				return fail
			}
			src, ok := all[wp]
			if !ok {
				return fail // Rename of a missing directory
			}
			delete(all, wp)
			all[rp] = src
			dirs = all
			if _, still := dirs[compName]; still {
				return fail // a directory "sstable_compaction…" is left: its number does not parse
			}
		}
	}
	var names []string
	for n := range dirs {
		names = append(names, n)
	}
	sort.Strings(names)
	maxGen := 0
	var live []string
	for _, n := range names {
		var g int
		if !strings.HasPrefix(n, "sstable_") {
			return fail
		}
		if _, err := fmt.Sscanf(n[len("sstable_"):], "%d", &g); err != nil || fmt.Sprintf("sstable_%015d", g) != n {
			return fail
		}
		switch dirs[n].class {
		case "complete":
			live = append(live, n)
			if g > maxGen {
				maxGen = g
			}
		case "part0", "gone":
		case "part1":
			return fail
		default:
			return "bad-op"
		}
	}
	layers := []*tbl{}
	for _, n := range live {
		layers = append(layers, dirs[n])
	}
	if b.hasWal {
		n := cdTableName(maxGen + 1)
		live = append(live, n)
		layers = append(layers, &tbl{cells: b.walOps})
	}
	o := cdObs{open: "ok", dirs: live, tables: live}
	for _, k := range b.keys {
		g := k + "=nf"
		for i := len(layers) - 1; i >= 0; i-- {
			if layers[i].errs[k] {
				g = k + "=err"
				break
			}
			if c, ok := layers[i].cells[k]; ok {
				if !c.del && c.v != "" {
					g = k + "=" + c.v
				}
				break
			}
		}
		o.gets = append(o.gets, g)
	}
	return o.String()
}

// ---------------------------------------------------------------------------------------------

func cdBuild(scratch string, r *Rng, idx int, tier string) (*cdBuilt, *simpledb.DB, string, error) {
	live, err := os.MkdirTemp(scratch, fmt.Sprintf("live%d-", idx))
	if err != nil {
		return nil, nil, "", err
	}
	b := &cdBuilt{ref: map[string]string{}, walOps: map[string]cdVal{}}
	b.excludeOld = r.Chance(30)
	maxSize := uint64(1 << 30)
	if b.excludeOld {
		maxSize = 1500
	}
	db, err := cdOpenDB(live, maxSize)
	if err != nil {
		return nil, nil, "", err
	}
	alpha := []string{"a", "b", "c", "d", "e", "f", "g", "h"}
	b.keys = alpha
	maxT := 3
	if tier == "thorough" {
		maxT = 5
	}
	nt := 2 + r.Intn(maxT)
	if b.excludeOld {
		nt++
	}
	apply := func(m map[string]cdVal, del int, big bool) error {
		k := alpha[r.Intn(len(alpha))]
		if r.Chance(del) {
			if err := db.Delete(k); err != nil {
				return err
			}
			delete(b.ref, k)
			m[k] = cdVal{del: true}
			return nil
		}
		var v string
		switch {
		case big:
			v = fmt.Sprintf("%x", r.Bytes(1200))
		case r.Chance(20):
			v = strings.Repeat(string(rune('A'+r.Intn(26))), 20+r.Intn(40))
		default:
			v = fmt.Sprintf("v%d-%x", idx, r.Bytes(1+r.Intn(5)))
		}
		if err := db.Put(k, v); err != nil {
			return err
		}
		b.ref[k] = v
		m[k] = cdVal{v: v}
		return nil
	}
	for t := 0; t < nt; t++ {
		m := map[string]cdVal{}
		cnt := 1 + r.Intn(4)
		for i := 0; i < cnt; i++ {
			if err := apply(m, 25, b.excludeOld && t == 0); err != nil {
				return nil, nil, "", err
			}
		}
		if err := db.VerifRotate(); err != nil {
			return nil, nil, "", err
		}
		db.VerifWaitFlushIdle()
		b.tables = append(b.tables, m)
		b.tableNames = append(b.tableNames, cdTableName(t+1))
	}
	for i := r.Intn(3); i > 0; i-- {
		if err := apply(b.walOps, 30, false); err != nil {
			return nil, nil, "", err
		}
		b.hasWal = true
	}
	b.files, b.dirs, err = cdSnapshotDir(live)
	if err != nil {
		return nil, nil, "", err
	}
	b.desc = fmt.Sprintf("tables=%d walops=%d excludeOldest=%v", nt, len(b.walOps), b.excludeOld)
	return b, db, live, nil
}

func cdHexList(ps []string) string {
	var out []string
	for _, p := range ps {
		out = append(out, gb([]byte(p)))
	}
	return strings.Join(out, ",")
}

func runCompDir(res *Result, drv *Driver, seed uint64, n int, tier string, only int) error {
	res.Rule = "distinct (image kind, model classification of flag and table part, observed Open outcome) triples"
	base := ""
	if st, err := os.Stat("/dev/shm"); err == nil && st.IsDir() {
		base = "/dev/shm"
	}
	scratch, err := os.MkdirTemp(base, "verif-compdir-")
	if err != nil {
		return err
	}
	defer os.RemoveAll(scratch)
	padOracle := os.Getenv("COMPDIR_PAD_ORACLE") == "1"
	for idx := 0; idx < n; idx++ {
		if only >= 0 && idx != only {
			continue
		}
		r := NewRng(seed, uint64(idx))
		res.Cases++
		b, db, live, err := cdBuild(scratch, r, idx, tier)
		if err != nil {
			return fmt.Errorf("case %d: building the database failed: %v", idx, err)
		}
		res.Stat(fmt.Sprintf("tables:%d", len(b.tableNames)))
		res.Stat(fmt.Sprintf("wal-ops:%d", len(b.walOps)))

		// ---- the real compaction, recorded
		rec := &cdRec{}
		sstables.VerifWriterWrap = func(w *sstables.SSTableStreamWriter) {
			rec.dir = w.VerifBasePath()
			w.VerifWrapWriters(
				func(d recordio.WriterI) recordio.WriterI { rec.data = d; return cdDataW{d, rec} },
				func(i rProto.WriterI) rProto.WriterI { rec.index = i; return cdIndexW{i, rec} })
			rec.point("open")
		}
		var sel []string
		var repl string
		cerr := safely(func() error {
			var e error
			sel, repl, e = db.VerifCompactOnce()
			return e
		})
		sstables.VerifWriterWrap = nil
		if cerr != nil {
			return fmt.Errorf("case %d: the real compaction failed: %v", idx, cerr)
		}
		if len(sel) < 2 {
			return fmt.Errorf("case %d: the compaction selected %d tables (%s)", idx, len(sel), b.desc)
		}
		res.Stat(fmt.Sprintf("inputs:%d", len(sel)))
		if len(sel) < len(b.tableNames) {
			res.Stat("compaction-excludes-oldest-table(tombstones kept)")
		}
		fin := tdReadDir(filepath.Join(live, repl))
		var final [4][]byte
		for i := 0; i < 4; i++ {
			if !fin.has[i] {
				return fmt.Errorf("case %d: compaction left no %s", idx, tdFiles[i])
			}
			final[i] = fin.f[i]
		}
		flag, err := os.ReadFile(filepath.Join(live, repl, cdFlagName))
		if err != nil {
			return fmt.Errorf("case %d: no flag file in the renamed directory: %v", idx, err)
		}
		_ = safely(func() error { return db.Close() })
		_ = os.RemoveAll(live)
		compName := filepath.Base(rec.dir)
		cs := fmt.Sprintf("%s inputs=%s comp=%s", b.desc, strings.Join(sel, ","), compName)

		// the metadata as the real reading code sees it
		rd, err := cdRealRead(scratch, true, flag)
		if err != nil {
			return err
		}
		parts := strings.Split(rd, ";")
		res.Evaluations++
		if rd == "none" || len(parts) != 3 {
			res.Disagree(idx, "the flag the real compaction wrote does not read back", "readable", rd, cs)
			continue
		}
		wantMeta := gb([]byte(compName)) + ";" + gb([]byte(repl)) + ";" + cdHexList(sel)
		if rd != wantMeta {
			res.Violate(idx, "C10", "compaction-flag:metadata-differs-from-the-compaction-run", "flag holds "+rd+" the run reported "+wantMeta, cs)
		}
		metaArgs := fmt.Sprintf("wp=%s rp=%s paths=%s", parts[0], parts[1], parts[2])

		// ---- the table writer's emission order and the flag's absence while the table is written
		var kvParts []string
		for i := range rec.keys {
			if i < len(rec.vals) {
				kvParts = append(kvParts, gb(nonNil(rec.keys[i]))+":"+gb(rec.vals[i]))
			}
		}
		kvs := strings.Join(kvParts, ",")
		var logD, logI []int
		var obsCh []tdChunk
		prevD, prevI := 8, 8
		emissionOK := len(rec.keys) == len(rec.vals)
		flagEarly := false
		for _, p := range rec.points {
			if p.hasFlag {
				flagEarly = true
			}
			switch {
			case p.what == "open":
				if p.diskD != 8 || p.diskI != 8 || p.metaLen != 0 || p.bloomLen != -1 {
					emissionOK = false
				}
			case p.what[0] == 'd':
				logD = append(logD, p.logD)
				obsCh = append(obsCh, tdChunk{d: []int{p.diskD - prevD}})
				if p.diskI != prevI || p.diskD > p.logD || p.metaLen != 0 || p.bloomLen != -1 {
					emissionOK = false
				}
				prevD = p.diskD
			case p.what[0] == 'i':
				logI = append(logI, p.logI)
				obsCh[len(obsCh)-1].i = []int{p.diskI - prevI}
				if p.diskD != prevD || p.diskI > p.logI || p.metaLen != 0 || p.bloomLen != -1 {
					emissionOK = false
				}
				prevI = p.diskI
			}
		}
		res.Evaluations++
		if !emissionOK || len(logD) != len(rec.keys) || len(logI) != len(rec.keys) {
			res.Disagree(idx, "emission order of the compaction's table writer", "as modelled", fmt.Sprintf("%d points", len(rec.points)), cs)
			continue
		}
		res.Stat(fmt.Sprintf("merged-records:%d", len(rec.keys)))
		oracle := oracleFor(2, rec.vals)
		bloomOK := "0"
		if tdBloomOk(final[tdBloom]) {
			bloomOK = "1"
		}
		tblArgs := func(ch []tdChunk, bch []int) string {
			var bp []string
			off := 0
			for _, n := range bch {
				bp = append(bp, gb(final[tdBloom][off:off+n]))
				off += n
			}
			return fmt.Sprintf("doracle=%s bloomok=%s kvs=%s chunks=%s bloom=%s", oracle, bloomOK, kvs, tdChunkStr(ch), strings.Join(bp, "+"))
		}
		refGets := strings.Join(b.refGets(), ";")

		// one image: model line, real Open, comparison, oracle
		probe := func(kind, what, line string, m cdImg, reachable bool, padded bool) error {
			ans, err := drv.Ask(line)
			if err != nil {
				return err
			}
			mo := cdParseModel(ans)
			full := cs + " " + kind + " " + what
			if strings.HasPrefix(line, "compdir.run") {
				res.Cmp(idx, what+": table image bytes", mo.td.img, m.tbl.String(), full)
			}
			res.Cmp(idx, what+": flag image bytes", "flag="+mo.flag, "flag="+m.flagStr(), full)
			if m.tbl.dir {
				rr, err := cdRealRead(scratch, m.hasFlag, m.flag)
				if err != nil {
					return err
				}
				res.Cmp(idx, what+": the flag reading code of repairCompactions", "read="+mo.read, "read="+rr, full)
			}
			obs, msg, err := cdOpenImage(scratch, b, compName, m)
			if err != nil {
				return err
			}
			mo2 := mo
			if !strings.HasPrefix(line, "compdir.run") {
				// flag-only line: the table part is the complete table
				mo2.td.class = "complete"
				var cells []string
				for i := range rec.keys {
					v := "-"
					if len(rec.vals[i]) > 0 {
						v = gb(rec.vals[i])
					}
					cells = append(cells, gb(nonNil(rec.keys[i]))+"="+v)
				}
				mo2.td.cells = strings.Join(cells, ";")
			}
			res.Cmp(idx, what+": classification vs real Open", cdExpect(b, compName, mo2, m.tbl.dir), obs.String(), full)
			flagCls := "unreadable"
			if mo.read != "none" {
				flagCls = "readable"
				if mo.read != wantMeta {
					flagCls = "readable-as-DIFFERENT-metadata"
				}
			}
			if !m.hasFlag {
				flagCls = "absent"
			}
			tcls := mo2.td.class
			if !m.tbl.dir {
				tcls, flagCls = "no-directory", "-"
			}
			res.Stat("class:" + kind + ":flag-" + flagCls + ":table-" + tcls)
			res.Stat("open:" + kind + ":" + obs.open)
			res.NoteNontrivial(kind + "|" + flagCls + "|" + tcls + "|" + obs.open)
			okNow := obs.open == "ok" && strings.Join(obs.gets, ";") == refGets
			for _, d := range obs.dirs {
				if strings.HasPrefix(d, "sstable_compaction") {
					okNow = false
				}
			}
			if reachable {
				res.Evaluations++
				if !okNow {
					sig := "compaction-dir-kill-image:" + kind
					switch {
					case obs.open != "ok":
						sig += ":open-fails"
					case strings.Join(obs.gets, ";") != refGets:
						sig += ":reads-change"
					default:
						sig += ":compaction-directory-left"
					}
					res.Violate(idx, "C10", sig, "want open=ok gets="+refGets+" got "+obs.String()+" "+msg, full+" flag="+m.flagStr())
				}
			}
			if padded && !okNow {
				res.Stat("outside-kill9:zero-padded-flag:open=" + obs.open + ":" + flagCls)
				if padOracle {
					res.Evaluations++
					res.Violate(idx, "C10", "compaction-flag:zero-padded-tail-misread", "want open=ok gets="+refGets+" got "+obs.String()+" "+msg, full+" flag="+m.flagStr())
				}
			}
			return nil
		}

		fullTbl := tdImg{dir: true}
		for i := 0; i < 4; i++ {
			fullTbl.has[i], fullTbl.f[i] = true, final[i]
		}

		// ---- (B1) real snapshots with the observed flush points
		bloomCh := []int{len(final[tdBloom])}
		obsCalls, marks := tdFlushCalls(final, logD, logI, obsCh, bloomCh)
		lenT := len(obsCalls)
		obsArgs := tblArgs(obsCh, bloomCh)
		for _, p := range rec.points {
			k, ok := marks[p.what]
			if p.what == "closeI" || p.what == "closeD" {
				k, ok = marks[fmt.Sprintf("i%d", len(rec.keys)-1)], true
				if len(rec.keys) == 0 {
					k = marks["open"]
				}
				if p.what == "closeD" {
					// index.rio has been flushed and closed
					k = -1
				}
			}
			if !ok {
				return fmt.Errorf("case %d: no mark for point %s", idx, p.what)
			}
			img := cdImg{tbl: p.snap, hasFlag: p.hasFlag, flag: p.flag}
			if p.hasFlag {
				// the flag exists while the table is still being written: not producible by the code as modelled
				res.Evaluations++
				res.Disagree(idx, "success flag present before the table writer is closed (at "+p.what+")", "absent", "flag="+img.flagStr(), cs)
				obs, msg, err := cdOpenImage(scratch, b, compName, img)
				if err != nil {
					return err
				}
				res.Evaluations++
				if obs.open != "ok" || strings.Join(obs.gets, ";") != refGets {
					res.Violate(idx, "C10", "compaction-dir-kill-image:flag-before-table-complete", "want open=ok gets="+refGets+" got "+obs.String()+" "+msg, cs+" snapshot "+p.what)
				}
				continue
			}
			if k < 0 {
				continue
			}
			ti := tdAfter(tdState{}, obsCalls, k).img(final)
			res.Evaluations++
			if ti.String() != p.snap.String() {
				res.Disagree(idx, "real snapshot at "+p.what+" differs from the truncation image of the reference calls", ti.String(), p.snap.String(), cs)
				continue
			}
			if len(rec.points) > 8 && p.what != "open" && p.what != "closeI" && !r.Chance(40) {
				continue
			}
			line := fmt.Sprintf("compdir.run mode=prefix %s %s sizes= n=%d", obsArgs, metaArgs, k)
			if err := probe("snap", "snapshot "+p.what, line, img, true, false); err != nil {
				return err
			}
		}
		_ = flagEarly

		// ---- (B2) generated flush points: prefixes of the table writer's calls, no flag
		genCh := tdGenChunks(r, logD, logI)
		genBloom := tdSplit(r, len(final[tdBloom]))
		genCalls, _ := tdFlushCalls(final, logD, logI, genCh, genBloom)
		genArgs := tblArgs(genCh, genBloom)
		L := len(genCalls)
		for k := 0; k <= L; k++ {
			if k > 7 && k < L-3 && !r.Chance(25) {
				continue
			}
			img := cdImg{tbl: tdAfter(tdState{}, genCalls, k).img(final)}
			line := fmt.Sprintf("compdir.run mode=prefix %s %s sizes= n=%d", genArgs, metaArgs, k)
			if err := probe("table-prefix", fmt.Sprintf("table calls %d/%d", k, L), line, img, true, false); err != nil {
				return err
			}
		}

		// ---- (A1) prefixes of saveCompactionMetadata's calls with generated flush points, through the whole-directory model
		var sizes []int
		for k := r.Intn(4); k > 0; k-- {
			sizes = append(sizes, r.Intn(len(flag)+4))
		}
		var ss []string
		for _, s := range sizes {
			ss = append(ss, fmt.Sprint(s))
		}
		fst := cdFlagCalls(len(flag), sizes)
		for j := 1; j < len(fst); j++ {
			img := cdImg{tbl: fullTbl}
			if fst[j] >= 0 {
				img.hasFlag, img.flag = true, flag[:fst[j]]
			}
			line := fmt.Sprintf("compdir.run mode=prefix %s %s sizes=%s n=%d", genArgs, metaArgs, strings.Join(ss, "+"), L+j)
			ans, err := drv.Ask(line)
			if err != nil {
				return err
			}
			mo := cdParseModel(ans)
			wantCev := 4
			if fst[j] == len(flag) {
				wantCev = 5
			}
			res.Cmp(idx, "abstract events done after the flag call", fmt.Sprint(mo.cev), fmt.Sprint(wantCev), cs+" "+line)
			if err := probe("flag-calls", fmt.Sprintf("flag calls %d/%d sizes=%v", j, len(fst)-1, sizes), line, img, true, false); err != nil {
				return err
			}
		}
		lenT = L

		// ---- (A2) every truncation of the flag file (complete table part)
		step := 1
		if idx >= 2 && tier != "thorough" {
			step = 0 // sampled below
		}
		for k := 0; k <= len(flag); k++ {
			if step == 0 && k > 24 && k < len(flag)-2 && !r.Chance(12) {
				continue
			}
			img := cdImg{tbl: fullTbl, hasFlag: true, flag: flag[:k]}
			line := fmt.Sprintf("compdir.flag mode=cut %s k=%d pad=0", metaArgs, k)
			if err := probe("flag-cut", fmt.Sprintf("flag cut at %d/%d", k, len(flag)), line, img, true, false); err != nil {
				return err
			}
		}
		{
			img := cdImg{tbl: fullTbl}
			if err := probe("flag-cut", "flag absent", fmt.Sprintf("compdir.flag mode=image %s flag=-", metaArgs), img, true, false); err != nil {
				return err
			}
		}

		// ---- (C1) NOT kill-9: a cut flag followed by zero padding (model comparison; counted, see the header)
		for t := 0; t < 14; t++ {
			k := r.Intn(len(flag))
			if t < 4 {
				k = len(flag) - 1 - r.Intn(22) // inside the last path
			} else if t < 7 {
				k = 8 + r.Intn(14) // inside the record header
			}
			pad := len(flag) - k
			switch r.Intn(5) {
			case 0:
				pad = r.Intn(len(flag) - k + 1)
			case 1:
				pad += 1 + r.Intn(40)
			}
			z := append(append([]byte{}, flag[:k]...), make([]byte, pad)...)
			img := cdImg{tbl: fullTbl, hasFlag: true, flag: z}
			line := fmt.Sprintf("compdir.flag mode=cut %s k=%d pad=%d", metaArgs, k, pad)
			if err := probe("flag-zero-padded", fmt.Sprintf("flag cut at %d + %d zeros", k, pad), line, img, false, true); err != nil {
				return err
			}
		}

		// ---- (C2) NOT kill-9: one damaged byte (digits of the names, record header, file header)
		var digitPos []int
		for i := 20; i < len(flag); i++ {
			if flag[i] >= '0' && flag[i] <= '9' {
				digitPos = append(digitPos, i)
			}
		}
		for t := 0; t < 8; t++ {
			z := append([]byte{}, flag...)
			switch {
			case t < 4 && len(digitPos) > 0:
				p := digitPos[len(digitPos)-1-r.Intn(min(len(digitPos), 50))]
				z[p] = []byte{byte('0' + r.Intn(10)), 0xff, 0x00, byte('0' + r.Intn(4))}[r.Intn(4)]
			case t < 6:
				z[8+r.Intn(12)] = byte(r.Intn(256))
			case t == 6:
				z[0] = []byte{0, 5, 9}[r.Intn(3)]
			default:
				z[4] = byte(4 + r.Intn(200))
			}
			if bytes.Equal(z, flag) {
				continue
			}
			img := cdImg{tbl: fullTbl, hasFlag: true, flag: z}
			line := fmt.Sprintf("compdir.flag mode=image %s flag=%s", metaArgs, gb(z))
			if err := probe("flag-damaged", "one byte of the flag changed", line, img, false, false); err != nil {
				return err
			}
		}

		// ---- (C3) NOT producible by the current code: the complete flag on an incomplete table (what commit 036cc7d prevents)
		for t := 0; t < 3; t++ {
			k := 1 + r.Intn(L-2)
			if t == 0 {
				k = L - 2
			}
			img := cdImg{tbl: tdAfter(tdState{}, genCalls, k).img(final), hasFlag: true, flag: flag}
			line := fmt.Sprintf("compdir.run mode=image doracle=%s bloomok=%s index=%s data=%s metaf=%s bloomf=%s flag=%s %s",
				oracle, bloomOK, img.tbl.ob(0), img.tbl.ob(1), img.tbl.ob(2), img.tbl.ob(3), gb(flag), metaArgs)
			if img.tbl.has[tdBloom] && !tdBloomOk(img.tbl.f[tdBloom]) {
				line = strings.Replace(line, "bloomok="+bloomOK, "bloomok=0", 1)
			}
			if err := probe("flag-on-incomplete-table", fmt.Sprintf("complete flag, table calls %d/%d", k, L), line, img, false, false); err != nil {
				return err
			}
		}
		if idx < 3 {
			res.Sample(fmt.Sprintf("%s tablecalls=%d flag=%s", cs, lenT, gb(flag)))
		}
	}
	return nil
}
