package main

import (
	"bytes"
	"errors"
	"fmt"
	"io"
	"os"
	"path/filepath"
	"strconv"
	"strings"

	"github.com/thomasjungblut/go-sstables/recordio"
	"github.com/thomasjungblut/go-sstables/recordio/compressor"
)

// ---------------------------------------------------------------------------------------------
// shared recordio helpers

var magic = []byte{0x91, 0x8d, 0x4c}

func compressorFor(ct int) compressor.CompressionI {
	c, _ := recordio.NewCompressorForType(ct)
	return c
}

// oracle string for the model: raw:stored pairs for every payload (and the empty payload)
func oracleFor(ct int, payloads [][]byte) string {
	if ct == 0 {
		return ""
	}
	c := compressorFor(ct)
	seen := map[string]bool{}
	var parts []string
	add := func(p []byte) {
		k := string(p)
		if seen[k] {
			return
		}
		seen[k] = true
		st, err := c.Compress(p)
		if err != nil {
			return
		}
		parts = append(parts, gb(nonNil(p))+":"+gb(nonNil(st)))
	}
	add([]byte{})
	for _, p := range payloads {
		if p != nil {
			add(p)
		}
	}
	return strings.Join(parts, ",")
}

func nonNil(b []byte) []byte {
	if b == nil {
		return []byte{}
	}
	return b
}

// payload generator biased towards the bytes the format is sensitive to
func genPayload(r *Rng, around []int) []byte {
	switch k := r.Intn(100); {
	case k < 8:
		return nil
	case k < 16:
		return []byte{}
	case k < 40:
		return r.Bytes(r.Intn(24))
	case k < 60: // marker soup
		n := 1 + r.Intn(40)
		alphabet := []byte{0x91, 0x8d, 0x4c, 0x00, 0x01, 0xcc, 0x80, 0xff}
		b := make([]byte, 0, n+4)
		for len(b) < n {
			if r.Chance(25) {
				b = append(b, magic...)
			} else {
				b = append(b, alphabet[r.Intn(len(alphabet))])
			}
		}
		return b
	case k < 68: // ends with the first marker byte(s)
		b := r.Bytes(r.Intn(12))
		return append(b, magic[:1+r.Intn(2)]...)
	case k < 76: // size around a buffer / page boundary
		base := around[r.Intn(len(around))]
		n := base + r.Intn(7) - 3
		if n < 0 {
			n = 0
		}
		if n > 70000 {
			n = 70000
		}
		b := bytes.Repeat([]byte{byte(r.Next())}, n)
		if n > 0 && r.Chance(50) {
			b[r.Intn(n)] = 0x91
		}
		return b
	case k < 82: // zero filled (the suite's favourite)
		return make([]byte, r.Intn(30))
	case k < 88: // embeds a complete valid record (nested recordio): a legitimate phantom
		inner := r.Bytes(r.Intn(6))
		return append(r.Bytes(r.Intn(4)), encodeRecordRef(inner, false)...)
	case k < 92: // marker followed by continuation bytes
		b := append([]byte{}, magic...)
		b = append(b, byte(r.Intn(2)))
		// around Go's limit of ten varint bytes (it gives up after ten continuation bytes without reading an eleventh)
		cnt := []int{3, 8, 9, 10, 10, 10, 11, 14}[r.Intn(8)]
		for i := 0; i < cnt; i++ {
			b = append(b, 0x80|byte(r.Next()))
		}
		return b
	default:
		return r.Bytes(r.Intn(300))
	}
}

// reference encoder of an uncompressed record (independent of the repo), used only to build phantoms
func encodeRecordRef(p []byte, isNil bool) []byte {
	h := append([]byte{}, magic...)
	if isNil {
		h = append(h, 1)
	} else {
		h = append(h, 0)
	}
	h = appendUvarint(h, uint64(len(p)))
	h = appendUvarint(h, 0)
	h = appendUvarint(h, uint64(crc32cRef(h)))
	return append(h, p...)
}

func appendUvarint(b []byte, x uint64) []byte {
	for x >= 0x80 {
		b = append(b, byte(x)|0x80)
		x >>= 7
	}
	return append(b, byte(x))
}

func crc32cRef(b []byte) uint32 {
	crc := ^uint32(0)
	for _, x := range b {
		crc ^= uint32(x)
		for i := 0; i < 8; i++ {
			if crc&1 == 1 {
				crc = (crc >> 1) ^ 0x82F63B78
			} else {
				crc >>= 1
			}
		}
	}
	return ^crc
}

// ---------------------------------------------------------------------------------------------
// stream "rio": writer programs, byte-exact images, all readers (C04)

type wop struct {
	kind    string // "w", "ws", "s"
	rec     []byte
	off     uint64
	seekIdx int // for "s": index of the earlier write to seek back to (-1: chosen from off)
}

type rioCase struct {
	comp     int
	wbuf     int
	rbuf     int
	direct   bool
	ops      []wop
	desc     string
	payloads [][]byte
}

type survivor struct {
	off uint64
	rec []byte
}

var bufSizes = []int{1, 2, 3, 5, 7, 8, 13, 16, 31, 64, 100, 512, 4096, 65536, 4 * 1024 * 1024}

func genRioCase(r *Rng, tier string) *rioCase {
	c := &rioCase{comp: r.Intn(4), wbuf: r.Pick(bufSizes), rbuf: r.Pick(bufSizes)}
	if r.Chance(6) {
		// direct I/O: block-aligned buffer, no seeks, no sync writes, records smaller than the buffer
		c.direct = true
		c.wbuf = 4096
	}
	n := r.Intn(9)
	if r.Chance(10) {
		n = 0
	}
	if c.direct && r.Chance(60) {
		// enough data to wrap the block buffer several times (stale bytes from earlier blocks must not leak into the padding)
		n = 20 + r.Intn(60)
	}
	if tier == "thorough" && r.Chance(10) {
		n = 10 + r.Intn(40)
	}
	around := []int{c.wbuf, c.rbuf, 36, 4096, 127, 128, 16383, 16384}
	var offs []uint64 // offsets are filled while executing; the generator only chooses "which earlier write"
	_ = offs
	for i := 0; i < n; i++ {
		k := r.Intn(100)
		switch {
		case c.direct || k < 78:
			p := genPayload(r, around)
			if c.direct && n >= 20 && r.Chance(70) {
				p = r.Bytes(40 + r.Intn(400))
			}
			if c.direct && len(p) >= 2048 {
				p = p[:2047]
			}
			c.ops = append(c.ops, wop{kind: "w", rec: p})
			c.payloads = append(c.payloads, p)
		case k < 86:
			p := genPayload(r, around)
			c.ops = append(c.ops, wop{kind: "ws", rec: p})
			c.payloads = append(c.payloads, p)
		default:
			// seek: resolved at run time; off encodes the choice
			c.ops = append(c.ops, wop{kind: "s", off: r.Next(), seekIdx: -1})
		}
	}
	// a tail of nil / empty / short records, a seek back to the first of them, then less data than was rolled
	// back (possibly nothing) before Close: the only records after the seek target are ones that carry no payload
	if !c.direct && r.Chance(15) {
		first := 0
		for _, o := range c.ops {
			if o.kind != "s" {
				first++
			}
		}
		tail := 1 + r.Intn(3)
		for i := 0; i < tail; i++ {
			var p []byte
			if r.Chance(30) {
				p = []byte{}
			}
			c.ops = append(c.ops, wop{kind: "w", rec: p})
			c.payloads = append(c.payloads, p)
		}
		c.ops = append(c.ops, wop{kind: "s", seekIdx: first + r.Intn(tail)})
		if r.Chance(40) {
			var p []byte
			if r.Chance(50) {
				p = []byte{byte(r.Next())}
			}
			c.ops = append(c.ops, wop{kind: "w", rec: p})
			c.payloads = append(c.payloads, p)
		}
	}
	return c
}

func (c *rioCase) String() string {
	var sb strings.Builder
	fmt.Fprintf(&sb, "comp=%d wbuf=%d rbuf=%d direct=%v ops=", c.comp, c.wbuf, c.rbuf, c.direct)
	for i, o := range c.ops {
		if i > 0 {
			sb.WriteByte(',')
		}
		if o.kind == "s" {
			fmt.Fprintf(&sb, "s:%d", o.off)
		} else {
			fmt.Fprintf(&sb, "%s:%s", o.kind, gb(o.rec))
		}
	}
	return sb.String()
}

func runRio(res *Result, drv *Driver, seed uint64, n int, tier string, only int) error {
	dir, err := os.MkdirTemp("", "verif-rio-")
	if err != nil {
		return err
	}
	defer os.RemoveAll(dir)
	res.Rule = "writer programs (Write/WriteSync/Seek incl. rejected seeks) x compression x write/read buffer sizes x direct I/O; " +
		"non-trivial = at least one record written; distinct = distinct (program, options) strings"
	res.Rule += "; " + rioThresholdRule
	// cases n .. n+extra-1: record sizes around the constants of the implementation that are no configured buffer sizes
	// and direct-I/O writers with buffers of several blocks (rioThresholdOne; generated from a second random stream, the
	// cases 0..n-1 are what they were)
	extra := rioThresholdCount(n)
	for i := 0; i < n+extra; i++ {
		if only >= 0 && i != only {
			continue
		}
		path := filepath.Join(dir, fmt.Sprintf("c%d.rio", i))
		if i >= n {
			if err := rioThresholdOne(res, drv, NewRng(seed^0x7468726573686f6c, uint64(i)), seed, i, i-n, path, tier); err != nil {
				return err
			}
			_ = os.Remove(path)
			continue
		}
		r := NewRng(seed, uint64(i))
		c := genRioCase(r, tier)
		if err := rioOne(res, drv, r, c, i, path, tier); err != nil {
			return err
		}
		_ = os.Remove(path)
	}
	return nil
}

func rioOne(res *Result, drv *Driver, r *Rng, c *rioCase, idx int, path string, tier string) error {
	res.Cases++
	res.Stat(fmt.Sprintf("comp=%d", c.comp))
	if c.direct {
		res.Stat("direct-io")
	}
	// ---- run the real writer
	opts := []recordio.FileWriterOption{recordio.Path(path), recordio.CompressionType(c.comp), recordio.BufferSizeBytes(c.wbuf)}
	if c.direct {
		opts = append(opts, recordio.DirectIO())
	}
	w, err := recordio.NewFileWriter(opts...)
	if err != nil {
		return fmt.Errorf("NewFileWriter: %w", err)
	}
	if err := w.Open(); err != nil {
		return fmt.Errorf("writer open: %w", err)
	}
	var surv []survivor
	var outs []string     // per-op outputs in the model's format
	var modelOps []string // ops as sent to the model (seeks resolved)
	var written []uint64
	writerFailed := false
	for oi := range c.ops {
		o := &c.ops[oi]
		switch o.kind {
		case "w", "ws":
			var off uint64
			err := safely(func() error {
				var e error
				if o.kind == "w" {
					off, e = w.Write(o.rec)
				} else {
					off, e = w.WriteSync(o.rec)
				}
				return e
			})
			if err != nil {
				// a failing write on a healthy file system is outside the model
				res.Violate(idx, "C04", "write-failed", fmt.Sprintf("op %d: %v", oi, err), c.String())
				writerFailed = true
			}
			outs = append(outs, strconv.FormatUint(off, 10))
			modelOps = append(modelOps, "w:"+gb(o.rec))
			surv = append(surv, survivor{off, o.rec})
			written = append(written, off)
			if o.rec == nil {
				res.Stat("rec:nil")
			} else if len(o.rec) == 0 {
				res.Stat("rec:empty")
			} else {
				res.Stat("rec:data")
			}
		case "s":
			// resolve the target: an earlier record boundary, the current size, or an invalid offset
			var target uint64
			choice := o.off % 10
			switch {
			case o.seekIdx >= 0 && o.seekIdx < len(written) && isSurvivorOffset(surv, written[o.seekIdx]):
				target = written[o.seekIdx]
				res.Stat("seek:nil-tail")
			case choice < 6 && len(surv) > 0:
				// only boundaries of records that still survive: an offset handed out for a record that was rolled
				// back since is no record boundary any more (the property is about seeks to record boundaries)
				target = surv[int(o.off/16)%len(surv)].off
				res.Stat("seek:boundary")
			case choice < 7:
				target = w.Size()
				res.Stat("seek:size")
			case choice < 9:
				target = (o.off / 16) % 8 // into the file header
				res.Stat("seek:header")
			default:
				target = w.Size() + 1 + (o.off/16)%100
				res.Stat("seek:beyond")
			}
			o.off = target
			err := w.Seek(target)
			if err != nil {
				outs = append(outs, "1")
			} else {
				outs = append(outs, "0")
				// records at or after the target no longer survive
				k := 0
				for _, s := range surv {
					if s.off < target {
						surv[k] = s
						k++
					}
				}
				surv = surv[:k]
			}
			modelOps = append(modelOps, fmt.Sprintf("s:%d", target))
		}
		if writerFailed {
			break
		}
	}
	finalSize := w.Size()
	if err := w.Close(); err != nil {
		res.Violate(idx, "C04", "close-failed", err.Error(), c.String())
		return nil
	}
	if writerFailed {
		return nil
	}
	cs := c.String()
	if len(surv) > 0 {
		res.NoteNontrivial(cs)
	}
	file, err := os.ReadFile(path)
	if err != nil {
		return err
	}
	res.Sample(cs)

	// ---- model: same program, byte-exact image
	oracle := oracleFor(c.comp, c.payloads)
	if !c.direct {
		line := fmt.Sprintf("rio.write comp=%d oracle=%s ops=%s", c.comp, oracle, strings.Join(modelOps, ","))
		m, err := drv.Ask(line)
		if err != nil {
			return err
		}
		impl := fmt.Sprintf("outs=%s size=%d file=%s", strings.Join(outs, ","), finalSize, hexs(file))
		res.Cmp(idx, "rio.write", m, impl, cs)
	} else {
		// direct I/O pads the file with zeros up to a block boundary: compare the prefix, require a zero tail
		line := fmt.Sprintf("rio.write comp=%d oracle=%s ops=%s", c.comp, oracle, strings.Join(modelOps, ","))
		m, err := drv.Ask(line)
		if err != nil {
			return err
		}
		want := fmt.Sprintf("outs=%s size=%d file=", strings.Join(outs, ","), finalSize)
		ok := strings.HasPrefix(m, want)
		if ok {
			mh := m[len(want):]
			fh := hexs(file)
			ok = strings.HasPrefix(fh, mh) && strings.Trim(fh[len(mh):], "0") == ""
		}
		res.Evaluations++
		if !ok {
			res.Disagree(idx, "rio.write(direct)", m, want+hexs(file), cs)
		}
	}

	// ---- property oracle on the implementation + model correspondence of every reader
	// 1. sequential read of everything
	prog := make([]string, len(surv)+1)
	for i := range prog {
		prog[i] = "r"
	}
	implSeq := runRealReader(path, c, prog)
	want := make([]string, 0, len(surv)+1)
	for _, s := range surv {
		want = append(want, "ok:"+gb(s.rec))
	}
	want = append(want, "err:eof")
	res.Evaluations++
	if strings.Join(implSeq, " ") != strings.Join(want, " ") {
		res.Violate(idx, "C04", sigRio(c, "seq-read"), "sequential read: want "+strings.Join(want, " ")+" got "+strings.Join(implSeq, " "), cs)
	}
	askRead := func(what string, prog []string, impl []string) error {
		m, err := drv.Ask(fmt.Sprintf("rio.read oracle=%s file=%s prog=%s", oracle, hexs(file), strings.Join(prog, ",")))
		if err != nil {
			return err
		}
		res.Cmp(idx, what, m, strings.Join(impl, " "), cs)
		return nil
	}
	if err := askRead("rio.read(seq)", prog, implSeq); err != nil {
		return err
	}
	// 2. mixed read/skip program: skipping must be equivalent to reading and discarding
	if len(surv) > 0 {
		mixed := make([]string, len(surv)+1)
		wantMixed := make([]string, 0, len(surv)+1)
		for i := range mixed {
			if r.Chance(50) {
				mixed[i] = "k"
			} else {
				mixed[i] = "r"
			}
			if i < len(surv) {
				if mixed[i] == "k" {
					wantMixed = append(wantMixed, "ok")
					if surv[i].rec == nil {
						res.Stat("skip:nil")
					}
				} else {
					wantMixed = append(wantMixed, "ok:"+gb(surv[i].rec))
				}
			} else if c.direct && mixed[i] == "k" {
				// no record left to skip; the zero padding of a direct-I/O file is reported as a
				// magic-number mismatch by SkipNext (ReadNext maps it to EOF). Outside the statement.
				wantMixed = append(wantMixed, "err:*")
			} else {
				wantMixed = append(wantMixed, "err:eof")
			}
		}
		implMixed := runRealReader(path, c, mixed)
		res.Evaluations++
		if !matchWild(wantMixed, implMixed) {
			res.Violate(idx, "C04", sigRio(c, "skip-read"), "mixed read/skip "+strings.Join(mixed, ",")+": want "+strings.Join(wantMixed, " ")+" got "+strings.Join(implMixed, " "), cs)
		}
		if err := askRead("rio.read(mixed)", mixed, implMixed); err != nil {
			return err
		}
	}
	// 3. random access at every survivor offset, plus arbitrary offsets (model correspondence only)
	mm, err := recordio.NewMemoryMappedReaderWithPath(path)
	if err != nil {
		return err
	}
	if err := mm.Open(); err != nil {
		_ = mm.Close()
		return fmt.Errorf("mmap open: %w", err)
	}
	defer mm.Close()
	var offs []string
	var implAt []string
	for _, s := range surv {
		var rec []byte
		err := safely(func() error { var e error; rec, e = mm.ReadNextAt(s.off); return e })
		got := fmtRes(rec, err)
		res.Evaluations++
		if got != "ok:"+gb(s.rec) {
			res.Violate(idx, "C04", sigRio(c, "readat"), fmt.Sprintf("ReadNextAt(%d): want ok:%s got %s", s.off, gb(s.rec), got), cs)
		}
		offs = append(offs, strconv.FormatUint(s.off, 10))
		implAt = append(implAt, got)
	}
	for k := 0; k < 6; k++ {
		o := uint64(r.Intn(len(file) + 3))
		var rec []byte
		err := safely(func() error { var e error; rec, e = mm.ReadNextAt(o); return e })
		offs = append(offs, strconv.FormatUint(o, 10))
		implAt = append(implAt, fmtRes(rec, err))
	}
	m, err := drv.Ask(fmt.Sprintf("rio.readat oracle=%s file=%s offs=%s", oracle, hexs(file), strings.Join(offs, ",")))
	if err != nil {
		return err
	}
	res.Cmp(idx, "rio.readat", m, strings.Join(implAt, " "), cs)

	// 4. SeekNext from every offset of small files, sampled offsets of large ones
	var seekOffs []uint64
	if len(file) <= 700 {
		for o := 0; o <= len(file)+1; o++ {
			seekOffs = append(seekOffs, uint64(o))
		}
	} else {
		for k := 0; k < 48; k++ {
			seekOffs = append(seekOffs, uint64(r.Intn(len(file)+2)))
		}
		for _, s := range surv {
			seekOffs = append(seekOffs, s.off, s.off+1)
			if s.off > 0 {
				seekOffs = append(seekOffs, s.off-1)
			}
		}
	}
	// brute-force reference: least p >= off with the literal marker at p where ReadNextAt(p) succeeds
	type hit struct {
		ok  bool
		rec []byte
	}
	cache := map[uint64]hit{}
	validAt := func(p uint64) hit {
		if h, ok := cache[p]; ok {
			return h
		}
		h := hit{}
		if int(p)+3 <= len(file) && bytes.Equal(file[p:p+3], magic) {
			var rec []byte
			err := safely(func() error { var e error; rec, e = mm.ReadNextAt(p); return e })
			if err == nil {
				h = hit{true, rec}
			}
		}
		cache[p] = h
		return h
	}
	survAt := map[uint64]bool{}
	for _, s := range surv {
		survAt[s.off] = true
	}
	var so []string
	var implSeek []string
	for _, o := range seekOffs {
		var off uint64
		var rec []byte
		err := safely(func() error { var e error; off, rec, e = mm.SeekNext(o); return e })
		got := "err:" + errKind(err)
		if err == nil {
			got = fmt.Sprintf("ok:%d:%s", off, gb(rec))
		}
		// the property, literally: the first written (surviving) record that starts at or after o
		wantS := "err:eof"
		for _, sv := range surv {
			if sv.off >= o {
				wantS = fmt.Sprintf("ok:%d:%s", sv.off, gb(sv.rec))
				break
			}
		}
		if int(o) > len(file) {
			wantS = "err:*" // reading beyond the mapping is an error of some kind
		}
		res.Evaluations++
		if !(wantS == got || (wantS == "err:*" && strings.HasPrefix(got, "err:"))) {
			// classify: did SeekNext stop at bytes inside a payload that form a complete valid record?
			sig := "seeknext:other"
			for p := o; int(p) < len(file); p++ {
				if h := validAt(p); h.ok {
					if !survAt[p] && got == fmt.Sprintf("ok:%d:%s", p, gb(h.rec)) {
						sig = "seeknext:payload-embeds-valid-record"
						res.Stat("seeknext:phantom-target")
					}
					break
				}
			}
			res.Violate(idx, "C04", sig, fmt.Sprintf("SeekNext(%d): want %s got %s", o, wantS, got), cs+" file="+hexs(file))
		}
		so = append(so, strconv.FormatUint(o, 10))
		implSeek = append(implSeek, got)
	}
	m, err = drv.Ask(fmt.Sprintf("rio.seeknext oracle=%s file=%s offs=%s", oracle, hexs(file), strings.Join(so, ",")))
	if err != nil {
		return err
	}
	res.Cmp(idx, "rio.seeknext", m, strings.Join(implSeek, " "), cs)
	return nil
}

func hexs(b []byte) string {
	const digits = "0123456789abcdef"
	out := make([]byte, len(b)*2)
	for i, x := range b {
		out[2*i] = digits[x>>4]
		out[2*i+1] = digits[x&15]
	}
	return string(out)
}

func fmtRes(rec []byte, err error) string {
	if err != nil {
		return "err:" + errKind(err)
	}
	return "ok:" + gb(rec)
}

func matchWild(want, got []string) bool {
	if len(want) != len(got) {
		return false
	}
	for i := range want {
		if want[i] == "err:*" {
			if !strings.HasPrefix(got[i], "err:") {
				return false
			}
		} else if want[i] != got[i] {
			return false
		}
	}
	return true
}

// runs a reader program against the real sequential reader; stops after the first error
func runRealReader(path string, c *rioCase, prog []string) []string {
	var out []string
	opts := []recordio.FileReaderOption{recordio.ReaderPath(path), recordio.ReaderBufferSizeBytes(c.rbuf)}
	rd, err := recordio.NewFileReader(opts...)
	if err != nil {
		return []string{"new-err:" + err.Error()}
	}
	defer rd.Close()
	if err := rd.Open(); err != nil {
		return []string{"open-err:" + errKind(err)}
	}
	for _, op := range prog {
		var rec []byte
		var err error
		if op == "r" {
			err = safely(func() error { var e error; rec, e = rd.ReadNext(); return e })
			if err != nil {
				out = append(out, "err:"+errKindP(err))
				break
			}
			out = append(out, "ok:"+gb(rec))
		} else {
			err = safely(func() error { return rd.SkipNext() })
			if err != nil {
				out = append(out, "err:"+errKindP(err))
				break
			}
			out = append(out, "ok")
		}
	}
	return out
}

func errKindP(err error) string {
	if err != nil && strings.HasPrefix(err.Error(), "PANIC") {
		return "panic"
	}
	return errKind(err)
}

// signatures: a classification of the failing input, so that known findings are matched by what
// fails and not merely by which check failed
func sigRio(c *rioCase, what string) string {
	hasNil := false
	for _, o := range c.ops {
		if o.kind != "s" && o.rec == nil {
			hasNil = true
		}
	}
	s := what
	if c.comp != 0 && hasNil {
		s += ":nil-record-in-compressed-file"
	}
	return s
}


var _ = errors.New
var _ = io.EOF

func isSurvivorOffset(surv []survivor, off uint64) bool {
	for _, s := range surv {
		if s.off == off {
			return true
		}
	}
	return false
}

// ---------------------------------------------------------------------------------------------
// threshold cases (C04, and C07 for the block-aligned writer): record sizes around the constants of the
// implementation that are NOT configured buffer sizes, and direct-I/O writers whose buffer holds several blocks.
//
// Constants (read off the source; a change of one of them only makes these cases aim next to the old value):
//   * the record buffer pools are pool.NewPool(1024, 20) (capnp exp/bufferpool): size classes 1<<10 ... 1<<19, a
//     request above 1<<19 is allocated on demand and dropped on Put, the documentation says "max size = ~1MiB";
//   * recordio.DefaultBufferSize = 4 MiB (writer and reader buffer when none is configured);
//   * the compressors' windows / block sizes: 32 KiB (flate), 64 KiB (snappy block);
//   * the mmap reader's seek window (4 KiB) and the direct-I/O block (4 KiB) are in the plain cases already.
// The files are too large for the wire protocol of the model, so these cases are judged by the property oracle
// alone: every access path (ReadNext, SkipNext + ReadNext, ReadNextAt, SeekNext) returns the written bytes.

const rioThresholdRule = "n/25 more cases (at most 64; oracle only for the large ones): records of 2^k-1, 2^k, 2^k+1 bytes for the buffer-pool size classes 2^10 ... 2^19, " +
	"2^20 (documented pool maximum), 2^21, 4 MiB (default buffer), 32 KiB / 64 KiB (compressor windows), payloads incompressible or compressible but never constant, " +
	"every compression type, read through ReadNext, SkipNext/ReadNext, ReadNextAt and SeekNext; direct-I/O writers with buffers of 2 ... 4 blocks whose file receives more than " +
	"one buffer and is closed a few bytes after a refill (model comparison as for the plain direct-I/O cases)"

func rioThresholdCount(n int) int {
	e := n / 25
	if e > 64 {
		e = 64
	}
	return e
}

type rioBigRec struct {
	size int
	kind string // "rand" incompressible, "pat" compressible and position dependent, "nil", "small"
	data []byte
}

// rioFill: n bytes, never constant, first and last byte non-zero
func rioFill(r *Rng, n int, kind string) []byte {
	b := make([]byte, n)
	if n == 0 {
		return b
	}
	switch kind {
	case "pat":
		// a random 251-byte block repeated with the repetition number added: compresses well, yet every 251-byte
		// window differs from its neighbours (a misplaced or truncated window shows)
		blk := r.Bytes(251)
		for i := range b {
			b[i] = blk[i%251] + byte(i/251) + byte(i/(251*256))
		}
	default:
		// xorshift from the case's random stream: eight bytes per step
		x := r.Next() | 1
		i := 0
		for ; i+8 <= n; i += 8 {
			x ^= x << 13
			x ^= x >> 7
			x ^= x << 17
			b[i], b[i+1], b[i+2], b[i+3] = byte(x), byte(x>>8), byte(x>>16), byte(x>>24)
			b[i+4], b[i+5], b[i+6], b[i+7] = byte(x>>32), byte(x>>40), byte(x>>48), byte(x>>56)
		}
		for ; i < n; i++ {
			b[i] = byte(r.Next())
		}
	}
	if b[0] == 0 {
		b[0] = 0xa5
	}
	if b[n-1] == 0 {
		b[n-1] = 0x5a
	}
	return b
}

// rioNonZero: n random bytes without a zero among them (what a stale buffer must not leak as "padding")
func rioNonZero(r *Rng, n int) []byte {
	b := r.Bytes(n)
	for i := range b {
		if b[i] == 0 {
			b[i] = 0x5a
		}
	}
	return b
}

func rioDiff(want, got []byte, err error) string {
	if err != nil {
		return "err:" + errKindP(err) + " (" + clipN(err.Error(), 160) + ")"
	}
	if want == nil || got == nil {
		if want == nil && got == nil {
			return ""
		}
		return fmt.Sprintf("want nil=%v got nil=%v (got %d bytes)", want == nil, got == nil, len(got))
	}
	if len(want) != len(got) {
		return fmt.Sprintf("want %d bytes, got %d bytes", len(want), len(got))
	}
	for i := range want {
		if want[i] != got[i] {
			zero := true
			for _, x := range got {
				if x != 0 {
					zero = false
					break
				}
			}
			return fmt.Sprintf("%d bytes, first difference at byte %d: want %02x got %02x; got is all zero: %v", len(want), i, want[i], got[i], zero)
		}
	}
	return ""
}

func rioSizeClass(n int) string {
	switch {
	case n > 1<<20:
		return ">1MiB"
	case n > 1<<19:
		return "512KiB<..<=1MiB"
	case n >= 1<<16:
		return "64KiB..512KiB"
	case n >= 1<<10:
		return "1KiB..64KiB"
	}
	return "<1KiB"
}

// schedule of one group of 14 cases: every compression type for the classes A, C, D and two of the four for B (which two
// changes with the seed and the group): the 4 MiB cases are the expensive ones
func rioThresholdOne(res *Result, drv *Driver, r *Rng, seed uint64, idx, j int, path string, tier string) error {
	slot := j % 14
	group := j / 14
	switch {
	case slot < 4: // A: the pool maximum
		comp := slot
		d1 := r.Intn(2) - 1 // -1, 0
		d2 := r.Intn(2) - 1
		sizes := []int{1<<20 + 1, 1<<20 + d1, 1<<19 + 1, 1<<19 + d2}
		if group%2 == 1 {
			sizes = []int{1<<21 + r.Intn(3) - 1, 1<<20 + 1 + r.Intn(5000), 1<<19 + 1 + r.Intn(5000)}
		}
		return rioBigOne(res, r, idx, path, "pool-maximum", comp, sizes)
	case slot < 6: // B: the default buffer size
		comp := (slot-4)*2 + int((seed+uint64(group))%2)
		sizes := []int{recordio.DefaultBufferSize + r.Intn(3) - 1}
		if r.Chance(50) {
			sizes = append(sizes, 1<<20+1+r.Intn(1<<20))
		}
		return rioBigOne(res, r, idx, path, "default-buffer-4MiB", comp, sizes)
	case slot < 10: // C: the pool's size classes and the compressor windows
		comp := slot - 6
		var sizes []int
		for k := 10; k <= 18; k++ {
			if r.Chance(45) {
				sizes = append(sizes, 1<<k+r.Intn(3)-1)
			}
		}
		sizes = append(sizes, 1<<15+r.Intn(3)-1, 1<<16+r.Intn(3)-1, 1<<(10+r.Intn(9))+1)
		return rioBigOne(res, r, idx, path, "pool-classes+compressor-windows", comp, sizes)
	default: // D: direct-I/O writer, buffer of several blocks, more than one buffer per file
		comp := slot - 10
		if ok, err := recordio.IsDirectIOAvailable(); err != nil || !ok {
			res.Cases++
			res.Stat("threshold:direct-multi-block:skipped-direct-io-not-available-on-this-file-system")
			return nil
		}
		c := genRioDirectMulti(res, r, comp)
		return rioOne(res, drv, r, c, idx, path, tier)
	}
}

// alignedAim: payloads (each below `maxRec`, non-zero bytes) whose encoded records, after `start` bytes already in the
// file, end `rem` bytes behind the k-th multiple of the buffer size: the writer has written its buffer k times and holds
// rem bytes when the file is closed. Shared with the wal stream.
func alignedAim(r *Rng, comp int, start, buf, k, rem, maxRec int) (recs [][]byte, end int) {
	target := k * buf
	size := start
	lim := maxRec
	if lim > buf/6 {
		lim = buf / 6
	}
	if lim < 64 {
		lim = 64
	}
	for size < target-lim-64 || target+rem-size-12 > maxRec {
		p := rioNonZero(r, 40+r.Intn(lim-40))
		recs = append(recs, p)
		size += refRecordLen(comp, p)
	}
	// the last record: aim at target+rem, correct the length by the observed miss (compressors add a few bytes)
	l := target + rem - size - 12
	if l < 1 {
		l = 1
	}
	p := rioNonZero(r, l+64)
	for try := 0; try < 8; try++ {
		miss := size + refRecordLen(comp, p[:l]) - (target + rem)
		if miss == 0 {
			break
		}
		l -= miss
		if l < 1 {
			l = 1
			break
		}
		if l > len(p) {
			l = len(p)
			break
		}
	}
	recs = append(recs, p[:l])
	return recs, size + refRecordLen(comp, p[:l])
}

func genRioDirectMulti(res *Result, r *Rng, comp int) *rioCase {
	// (the model reads the whole image several times: buffers of 2 ... 4 blocks here, up to 16 blocks in the wal stream)
	buf := []int{8192, 8192, 12288, 16384}[r.Intn(4)]
	k := 1 + r.Intn(2)
	if buf >= 16384 {
		k = 1
	}
	rem := 1 + r.Intn(3000)
	if r.Chance(40) {
		rem = 1 + r.Intn(24) // a handful of bytes behind the refill
	}
	if r.Chance(12) {
		rem = buf - 4096 + 1 + r.Intn(4000) // control: the rest ends in the last block of the buffer
	}
	c := &rioCase{comp: comp, wbuf: buf, rbuf: r.Pick(bufSizes), direct: true}
	recs, end := alignedAim(r, comp, 8, buf, k, rem, buf/2-1)
	for _, p := range recs {
		c.ops = append(c.ops, wop{kind: "w", rec: p})
		c.payloads = append(c.payloads, p)
	}
	res.Stat("threshold:direct-multi-block")
	res.Stat(fmt.Sprintf("threshold:direct-multi-block:buffer=%d-blocks", buf/4096))
	res.Stat(fmt.Sprintf("threshold:direct-multi-block:buffers-written-before-close=%d", end/buf))
	if end > buf {
		res.Stat(fmt.Sprintf("threshold:direct-multi-block:last-flush-ends-in-block-%d-of-%d", (end%buf+4095)/4096, buf/4096))
	}
	return c
}

func rioBigOne(res *Result, r *Rng, idx int, path string, class string, comp int, sizes []int) error {
	res.Cases++
	res.Stat(fmt.Sprintf("comp=%d", comp))
	res.Stat("threshold:" + class)
	res.Stat(fmt.Sprintf("threshold:%s:comp=%d", class, comp))
	// the records: the aimed sizes in random order, now and then a nil / short record between them
	for i := len(sizes) - 1; i > 0; i-- {
		k := r.Intn(i + 1)
		sizes[i], sizes[k] = sizes[k], sizes[i]
	}
	var recs []rioBigRec
	maxSize := 0
	for _, n := range sizes {
		if r.Chance(30) {
			if r.Chance(40) {
				recs = append(recs, rioBigRec{0, "nil", nil})
			} else {
				n := r.Intn(200)
				recs = append(recs, rioBigRec{n, "small", rioFill(r, n, "rand")})
			}
		}
		kind := "rand"
		if r.Chance(40) {
			kind = "pat"
		}
		recs = append(recs, rioBigRec{n, kind, rioFill(r, n, kind)})
		res.Stat("threshold:rec:" + rioSizeClass(n))
		if n > maxSize {
			maxSize = n
		}
	}
	bufChoices := []int{1, 100, 4096, 65536, 1 << 20, recordio.DefaultBufferSize, maxSize - 1, maxSize, maxSize + 1, maxSize + 37}
	wbuf, rbuf := r.Pick(bufChoices), r.Pick(bufChoices)
	parts := make([]string, len(recs))
	for i, x := range recs {
		parts[i] = fmt.Sprintf("%s:%d", x.kind, x.size)
	}
	cs := fmt.Sprintf("threshold class=%s comp=%d wbuf=%d rbuf=%d records(kind:bytes; contents from the case's random stream)=%s", class, comp, wbuf, rbuf, strings.Join(parts, ","))
	res.Sample(cs)
	res.NoteNontrivial(cs)
	c := &rioCase{comp: comp, wbuf: wbuf, rbuf: rbuf}

	w, err := recordio.NewFileWriter(recordio.Path(path), recordio.CompressionType(comp), recordio.BufferSizeBytes(wbuf))
	if err != nil {
		return fmt.Errorf("NewFileWriter: %w", err)
	}
	if err := w.Open(); err != nil {
		return fmt.Errorf("writer open: %w", err)
	}
	offs := make([]uint64, len(recs))
	for i, x := range recs {
		var off uint64
		err := safely(func() error { var e error; off, e = w.Write(x.data); return e })
		if err != nil {
			res.Violate(idx, "C04", "threshold:write-failed", fmt.Sprintf("record %d (%s:%d): %v", i, x.kind, x.size, err), cs)
			_ = w.Close()
			return nil
		}
		offs[i] = off
	}
	if err := w.Close(); err != nil {
		res.Violate(idx, "C04", "threshold:close-failed", err.Error(), cs)
		return nil
	}
	st, err := os.Stat(path)
	if err != nil {
		return err
	}
	fileLen := uint64(st.Size())
	what := func(i int) string { return fmt.Sprintf("record %d (%s, %d bytes, offset %d)", i, recs[i].kind, recs[i].size, offs[i]) }
	sig := func(path string, i int) string {
		return fmt.Sprintf("threshold:%s:record-%s", path, rioSizeClass(recs[i].size))
	}

	// 1. sequential read; 2. skip / read mixed (two complementary programs: every record is read once and skipped once)
	for pass := 0; pass < 3; pass++ {
		err := func() error {
			rd, err := recordio.NewFileReader(recordio.ReaderPath(path), recordio.ReaderBufferSizeBytes(c.rbuf))
			if err != nil {
				return err
			}
			defer rd.Close()
			if err := rd.Open(); err != nil {
				return fmt.Errorf("reader open: %w", err)
			}
			name := []string{"seq-read", "skip-read", "skip-read"}[pass]
			for i := range recs {
				skip := pass > 0 && (i+pass)%2 == 0
				res.Evaluations++
				if skip {
					if err := safely(func() error { return rd.SkipNext() }); err != nil {
						res.Violate(idx, "C04", sig(name, i), fmt.Sprintf("%s: SkipNext over %s: %v", name, what(i), err), cs)
						return nil
					}
					continue
				}
				var got []byte
				err := safely(func() error { var e error; got, e = rd.ReadNext(); return e })
				if d := rioDiff(recs[i].data, got, err); d != "" {
					res.Violate(idx, "C04", sig(name, i), fmt.Sprintf("%s: ReadNext of %s: %s", name, what(i), d), cs)
					if err != nil {
						return nil
					}
				}
			}
			var got []byte
			err = safely(func() error { var e error; got, e = rd.ReadNext(); return e })
			res.Evaluations++
			if !errors.Is(err, io.EOF) {
				res.Violate(idx, "C04", "threshold:"+name+":end", fmt.Sprintf("%s: ReadNext behind the last record: want EOF, got %d bytes, err = %v", name, len(got), err), cs)
			}
			return nil
		}()
		if err != nil {
			return err
		}
	}
	// 3. random access, 4. SeekNext
	mm, err := recordio.NewMemoryMappedReaderWithPath(path)
	if err != nil {
		return err
	}
	if err := mm.Open(); err != nil {
		_ = mm.Close()
		return fmt.Errorf("mmap open: %w", err)
	}
	defer mm.Close()
	for i := range recs {
		var got []byte
		err := safely(func() error { var e error; got, e = mm.ReadNextAt(offs[i]); return e })
		res.Evaluations++
		if d := rioDiff(recs[i].data, got, err); d != "" {
			res.Violate(idx, "C04", sig("readat", i), fmt.Sprintf("ReadNextAt(%d) of %s: %s", offs[i], what(i), d), cs)
		}
	}
	seek := func(o uint64, wantIdx int, note string) {
		var off uint64
		var got []byte
		err := safely(func() error { var e error; off, got, e = mm.SeekNext(o); return e })
		res.Evaluations++
		if wantIdx >= len(recs) {
			if err == nil || (o <= fileLen && !errors.Is(err, io.EOF)) {
				res.Violate(idx, "C04", "threshold:seeknext:end", fmt.Sprintf("SeekNext(%d) (%s; no record starts there or later, file of %d bytes): want EOF, got offset %d, %d bytes, err = %v", o, note, fileLen, off, len(got), err), cs)
			}
			return
		}
		d := rioDiff(recs[wantIdx].data, got, err)
		if d == "" && off != offs[wantIdx] {
			d = fmt.Sprintf("offset %d", off)
		}
		if d != "" {
			res.Violate(idx, "C04", sig("seeknext", wantIdx), fmt.Sprintf("SeekNext(%d) (%s): want %s, got: %s", o, note, what(wantIdx), d), cs)
		}
	}
	for i := range recs {
		seek(offs[i], i, "a record's offset")
		seek(offs[i]-1, i, "one byte before a record")
		seek(offs[i]+1, i+1, "one byte into a record")
		if recs[i].size > 8 {
			// somewhere inside the payload: the scan crosses the rest of the record
			end := fileLen
			if i+1 < len(recs) {
				end = offs[i+1]
			}
			seek(end-1-uint64(r.Intn(recs[i].size-4)), i+1, "inside a record's payload")
		}
	}
	seek(0, 0, "start of the file")
	seek(fileLen, len(recs), "end of the file")
	return nil
}
